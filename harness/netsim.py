'''Scripted in-memory peers under the real wpull protocol stack.

Only asyncio.open_connection is replaced (wpull.network.connection looks it up at call time).
Everything above the socket - Connection, pool, streams, sessions, recorder - is wpull's code.
'''
import asyncio
import collections


class FakeTransport(object):
    def __init__(self, conn):
        self._conn = conn

    def get_extra_info(self, name, default=None):
        if name == 'peername':
            return (self._conn.host, self._conn.port)
        if name == 'sockname':
            return ('127.0.0.1', 50000 + self._conn.id % 10000)
        if name == 'ssl_object':
            return _FakeSSLObject()
        if name == 'socket':
            return FakeSocket(self._conn)
        return default

    def is_closing(self):
        return self._conn.client_closed

    def close(self):
        self._conn.close_from_client()

    def abort(self):
        self._conn.close_from_client()


class FakeSocket(object):
    '''Stands for the connected socket of a simulated connection (handed back to open_connection(sock=...) when a
    client starts TLS inside an established tunnel).'''
    def __init__(self, conn):
        self.conn = conn

    def getpeername(self):
        return (self.conn.host, self.conn.port)

    def getpeercert(self, binary_form=False):
        return {}


class _FakeSSLObject(object):
    def getpeercert(self, binary_form=False):
        return {}


class FakeWriter(object):
    def __init__(self, conn):
        self._conn = conn
        self.transport = FakeTransport(conn)

    def get_extra_info(self, name, default=None):
        return self.transport.get_extra_info(name, default)

    def write(self, data):
        self._conn.client_write(bytes(data))

    def writelines(self, lines):
        for line in lines:
            self.write(line)

    async def drain(self):
        exc = self._conn.write_exception
        if exc is not None:
            raise exc
        await asyncio.sleep(0)

    def close(self):
        self._conn.close_from_client()

    def is_closing(self):
        return self._conn.client_closed

    async def wait_closed(self):
        return None

    def can_write_eof(self):
        return True

    def write_eof(self):
        self._conn.events.append(('client_eof',))

    def get_extra_info(self, name, default=None):
        return self.transport.get_extra_info(name, default)


class SimConnection(object):
    '''One in-memory connection between the wpull client and a scripted peer.'''
    def __init__(self, net, cid, host, port, peer, kwargs):
        self.net = net
        self.id = cid
        self.host = host
        self.port = port
        self.peer = peer
        self.kwargs = kwargs
        self.reader = asyncio.StreamReader(limit=kwargs.get('limit', 2 ** 16))
        self.writer = FakeWriter(self)
        self.events = []
        self.client_closed = False
        self.peer_closed = False
        self.written = bytearray()
        self.fed = bytearray()
        self.write_exception = None
        self._tasks = []

    # ---- client side
    def client_write(self, data):
        if self.client_closed:
            return
        self.events.append(('write', data))
        self.written.extend(data)
        self.net.log.append((self.id, 'write', data))
        self.peer.data_received(self, data)

    def close_from_client(self):
        if not self.client_closed:
            self.client_closed = True
            # (closing a transport ends its stream: connection_lost() -> StreamReader.feed_eof(), so a Connection object
            # that still refers to this stream reports closed())
            try:
                self.reader.feed_eof()
            except Exception:
                pass
            self.events.append(('client_close',))
            self.net.log.append((self.id, 'client_close', b''))
            for t in self._tasks:
                t.cancel()
            try:
                self.peer.client_closed(self)
            except Exception:
                pass

    # ---- peer side
    def feed(self, data):
        if self.client_closed or self.peer_closed:
            return False
        self.events.append(('feed', data))
        self.fed.extend(data)
        self.net.log.append((self.id, 'feed', data))
        self.reader.feed_data(data)
        return True

    def feed_eof(self):
        if not self.peer_closed and not self.client_closed:
            self.peer_closed = True
            self.events.append(('eof',))
            self.net.log.append((self.id, 'eof', b''))
            self.reader.feed_eof()

    def reset(self, exc=None):
        if not self.peer_closed and not self.client_closed:
            self.peer_closed = True
            self.events.append(('reset',))
            self.net.log.append((self.id, 'reset', b''))
            self.reader.set_exception(exc or ConnectionResetError(104, 'Connection reset by peer'))
            self.write_exception = exc or ConnectionResetError(104, 'Connection reset by peer')

    def buffered(self):
        return len(self.reader._buffer)

    async def feed_pieces(self, pieces, settle=12):
        '''Feed pieces one at a time; the next piece only after the client consumed the previous
        one (or stopped consuming for `settle` loop iterations).'''
        for piece in pieces:
            if not piece:
                continue
            if not self.feed(piece):
                return False
            for _ in range(settle):
                await asyncio.sleep(0)
                if self.client_closed:
                    return False
                if self.buffered() == 0:
                    # one more turn so that a waiting reader really blocks on an empty buffer
                    await asyncio.sleep(0)
                    break
        return True

    def spawn(self, coro):
        task = asyncio.get_event_loop().create_task(coro)
        self._tasks.append(task)
        return task


class Peer(object):
    '''Base class of scripted peers (one object serves every connection to its address).'''
    def connection_made(self, conn):
        pass

    def data_received(self, conn, data):
        pass

    def client_closed(self, conn):
        pass


class Net(object):
    def __init__(self):
        self.peers = {}
        self.connections = []
        self.log = []
        self.connect_failures = collections.deque()   # exceptions to raise on next connects
        self._orig = None
        self.default_peer = None
        self.connect_gate = None     # optional callable(host, port) -> awaitable (scheduler-controlled connects)

    def add_peer(self, host, port, peer):
        self.peers[(host, port)] = peer

    def install(self):
        if self._orig is None:
            self._orig = asyncio.open_connection
            asyncio.open_connection = self.open_connection
        return self

    def uninstall(self):
        if self._orig is not None:
            asyncio.open_connection = self._orig
            self._orig = None

    async def open_connection(self, host=None, port=None, **kwargs):
        sock = kwargs.get('sock')
        if isinstance(sock, FakeSocket):
            # TLS started on an existing simulated connection (tunnel through a proxy): same byte stream from here on
            await asyncio.sleep(0)
            sock.conn.tls_started = True
            self.log.append((sock.conn.id, 'start-tls', b''))
            return sock.conn.reader, sock.conn.writer
        if self.connect_gate is not None:
            await self.connect_gate(host, port)
        else:
            await asyncio.sleep(0)
        if not isinstance(port, int) or not 0 <= port <= 65535:
            # what the real asyncio.open_connection does for such a port
            raise OverflowError('connect(): port must be 0-65535.')
        if self.connect_failures:
            exc = self.connect_failures.popleft()
            if exc is not None:
                raise exc
        peer = self.peers.get((host, port)) or self.peers.get((host, None)) or self.default_peer
        if peer is None:
            raise ConnectionRefusedError(111, 'Connection refused')
        conn = SimConnection(self, len(self.connections), host, port, peer, kwargs)
        self.connections.append(conn)
        self.log.append((conn.id, 'connect', b''))
        peer.connection_made(conn)
        return conn.reader, conn.writer


class StaticResolver(object):
    '''Resolver stand-in used where a real wpull Resolver would query DNS.  It returns wpull's own
    ResolveResult/AddressInfo objects; DNS is under no property.'''
    def __init__(self, table=None, default='127.0.0.1'):
        self.table = table or {}
        self.default = default

    async def resolve(self, host):
        import socket
        from wpull.network.dns import ResolveResult, AddressInfo
        await asyncio.sleep(0)
        ip = self.table.get(host, self.default)
        if callable(ip):
            ip = ip(host)
        if isinstance(ip, Exception):
            raise ip
        try:
            import ipaddress
            ipaddress.ip_address(host)
            ip = host
        except (ValueError, TypeError):
            pass
        ips = ip if isinstance(ip, (list, tuple)) else [ip]
        return ResolveResult([AddressInfo(i, socket.AF_INET6 if ':' in i else socket.AF_INET, None, None) for i in ips])


# ------------------------------------------------------------------------------ HTTP script peer
def request_complete(buf):
    '''Return length of the first complete HTTP request in buf (header + Content-Length body) or 0.'''
    idx = buf.find(b'\r\n\r\n')
    if idx < 0:
        return 0
    head = bytes(buf[:idx + 4])
    length = 0
    for line in head.split(b'\r\n')[1:]:
        if line.lower().startswith(b'content-length:'):
            try:
                length = int(line.split(b':', 1)[1].strip())
            except ValueError:
                length = 0
    total = idx + 4 + length
    if len(buf) >= total:
        return total
    return 0


class HTTPScriptPeer(Peer):
    '''Answers the k-th complete request (over all connections to this address) with the k-th
    scripted response.  A response is {'pieces': [bytes], 'then': 'keep'|'eof'|'reset'|'hang'}.
    The response to request k+1 is only fed after request k+1 was completely written.'''
    def __init__(self, responses, settle=12):
        self.responses = list(responses)
        self.index = 0
        self.requests = []       # (conn id, raw request bytes)
        self.settle = settle
        self._buf = {}
        self.served = []         # (conn id, response index)
        self.feed_done = {}      # response index -> asyncio.Event-like flag

    def connection_made(self, conn):
        self._buf[conn.id] = bytearray()

    def auto_response(self, conn, raw):
        '''Subclasses may answer some requests (e.g. CONNECT) outside the script.'''
        return None

    def data_received(self, conn, data):
        buf = self._buf[conn.id]
        buf.extend(data)
        while True:
            n = request_complete(buf)
            if not n:
                break
            raw = bytes(buf[:n])
            del buf[:n]
            self.requests.append((conn.id, raw))
            auto = self.auto_response(conn, raw)
            if auto is not None:
                conn.spawn(self._serve(conn, auto, None))
            elif self.index < len(self.responses):
                resp = self.responses[self.index]
                idx = self.index
                self.index += 1
                self.served.append((conn.id, idx))
                conn.spawn(self._serve(conn, resp, idx))
            else:
                conn.spawn(self._serve(conn, {'pieces': [], 'then': 'eof'}, None))

    async def _serve(self, conn, resp, idx):
        pieces = resp['pieces'](self.requests[-1][1]) if callable(resp['pieces']) else resp['pieces']
        fault = resp.get('fault')
        if fault:
            # transport-level failure after `at` pieces: the reader (and later writes) raise the given exception
            await conn.feed_pieces(pieces[:fault['at']], self.settle)
            conn.reset(fault['exc'])
            self.feed_done[idx] = True
            return
        ok = await conn.feed_pieces(pieces, self.settle)
        then = resp.get('then', 'keep')
        if ok:
            if then == 'eof':
                conn.feed_eof()
            elif then == 'reset':
                conn.reset()
        self.feed_done[idx] = True


def run(coro, timeout=60):
    '''Run a coroutine on a fresh stock event loop (used by protocol-level checks).'''
    loop = asyncio.new_event_loop()
    asyncio.set_event_loop(loop)
    try:
        return loop.run_until_complete(asyncio.wait_for(coro, timeout))
    finally:
        try:
            pending = [t for t in asyncio.all_tasks(loop) if not t.done()]
            for t in pending:
                t.cancel()
            if pending:
                loop.run_until_complete(asyncio.gather(*pending, return_exceptions=True))
        except Exception:
            pass
        loop.close()
        asyncio.set_event_loop(None)
