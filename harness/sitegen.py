'''Generated site graphs with canonical identities known by construction (imports nothing from wpull).

A Site has pages keyed by canonical URL ('http://host/path').  Each page lists its links with the raw
spelling that is served and the canonical URL the spelling denotes (known because the generator chose
the target first and then a spelling for it).
'''
import posixpath
import random

INLINE_KINDS = ('img', 'css', 'script', 'cssurl', 'cssimport', 'iframe')


class Page(object):
    def __init__(self, url, kind='html'):
        self.url = url
        self.kind = kind            # html | css | img | js | redirect | leaf
        self.links = []             # dicts: href, kind ('a','img','css','script','cssurl'), target
        self.status = 200
        self.location = None        # for redirects: (raw spelling, canonical target)
        self.nofollow = False
        self.extra_head = ''
        self.base_href = None       # raw <base href> spelling; the links of the page are then spelled against base_url
        self.set_cookie = None      # redirect pages: a cookie set with the redirect ('name=value')
        self.needs_cookie = None    # (cookie 'name=value', URL to send a client without it back to): a cookie gate
        self.straddle = 0           # k in 1..3: a 4-byte UTF-8 character lies across byte 131072 of the document, k bytes before it
        self.base_url = None
        self.junk = []              # raw hrefs that are not parseable URLs

    def body(self):
        if self.kind == 'html' or self.kind == 'leaf':
            parts = ['<!DOCTYPE html><html><head><meta charset="utf-8"><title>', self.url, '</title>']
            if self.straddle:
                # filler so that an emoji starts `straddle` bytes before offset 131072 (where encoding detectors cut their sample)
                so_far = len(''.join(parts).encode('utf-8')) + len('<!-- ')
                parts.append('<!-- ' + 'x' * (131072 - self.straddle - so_far) + '\U0001F600 -->')
            if self.base_href is not None:
                parts.append('<base href="%s">' % self.base_href)
            parts.append(self.extra_head)
            for l in self.links:
                if l['kind'] == 'css':
                    parts.append('<link rel="stylesheet" href="%s">' % l['href'])
                elif l['kind'] == 'script':
                    parts.append('<script src="%s"></script>' % l['href'])
            parts.append('</head><body><p>page %s</p>' % self.url)
            junk = list(self.junk)
            for l in self.links:
                if junk and l['kind'] == 'a':
                    parts.append('<a href="%s">junk</a>\n' % junk.pop())
                if l['kind'] == 'a':
                    parts.append('<a href="%s">link</a>\n' % l['href'])
                elif l['kind'] == 'img':
                    parts.append('<img src="%s" alt="i">\n' % l['href'])
                elif l['kind'] == 'iframe':
                    parts.append('<iframe src="%s"></iframe>\n' % l['href'])
            parts.append('</body></html>')
            return ''.join(parts).encode('utf-8')
        if self.kind == 'css':
            imports = ''.join(('@import url("%s");\n' if i % 2 else '@import "%s";\n') % l['href']
                              for i, l in enumerate(self.links) if l['kind'] == 'cssimport')
            return (imports + 'body { color: black; }\n' + ''.join(
                '.c%d { background: url("%s"); }\n' % (i, l['href']) for i, l in enumerate(self.links)
                if l['kind'] != 'cssimport')).encode()
        if self.kind == 'img':
            return b'\x89PNG\r\n\x1a\n' + b'0' * 20
        if self.kind == 'js':
            return b'var x = 1;\n'
        return b''

    def content_type(self):
        return {'html': 'text/html; charset=utf-8', 'leaf': 'text/html; charset=utf-8', 'css': 'text/css',
                'img': 'image/png', 'js': 'application/javascript'}.get(self.kind, 'text/plain')


def split_url(url):
    rest = url.split('://', 1)[1]
    host, _, path = rest.partition('/')
    return url.split('://', 1)[0], host, '/' + path


def spell(rng, base_url, target_url, allow_classes):
    '''Return (href, spelling class) denoting target_url when resolved against base_url.'''
    scheme, host, path = split_url(target_url)
    bscheme, bhost, bpath = split_url(base_url)
    cls = rng.choice(allow_classes)
    if bhost != host and cls in ('relative', 'dot-relative', 'abs-path', 'abs-path-dots', 'empty-seg'):
        cls = 'absolute'
    if cls == 'relative':
        bdir = posixpath.dirname(bpath)
        href = posixpath.relpath(path, bdir if bdir else '/')
        if path.endswith('/') and not href.endswith('/'):
            href += '/'
        if href in ('.', './'):
            href = './'
    elif cls == 'dot-relative':
        bdir = posixpath.dirname(bpath)
        href = './' + posixpath.relpath(path, bdir if bdir else '/')
        if path.endswith('/') and not href.endswith('/'):
            href += '/'
    elif cls == 'abs-path':
        href = path
    elif cls == 'abs-path-dots':
        segs = path.split('/')
        i = rng.randrange(1, len(segs))
        segs.insert(i, rng.choice(['.', 'zz/..']))
        href = '/'.join(segs)
    elif cls == 'empty-seg':
        segs = path.split('/')
        if len(segs) > 2:
            i = rng.randrange(2, len(segs))     # never at the front: '//x' would be a scheme-relative reference
            segs.insert(i, '')
        href = '/'.join(segs)
    elif cls == 'absolute':
        href = target_url
    elif cls == 'upper-scheme-host':
        href = scheme.upper() + '://' + host.upper() + path
    elif cls == 'default-port':
        href = scheme + '://' + host + ':80' + path if ':' not in host else target_url
    elif cls == 'scheme-relative':
        href = '//' + host + path
    elif cls == 'fragment':
        href = path + '#' + rng.choice(['top', 'sec-2', ''])
    else:
        href = target_url
    return href, cls


SPELLINGS = ['relative', 'dot-relative', 'abs-path', 'abs-path-dots', 'empty-seg', 'absolute', 'upper-scheme-host',
             'default-port', 'scheme-relative', 'fragment']


class Site(object):
    def __init__(self, host='a.test'):
        self.host = host
        self.pages = {}
        self.start = None
        self.features = set()
        self.optional = set()       # URLs a crawler may or may not request (the URL written in a <base> element); never pages

    def add(self, page):
        self.pages[page.url] = page
        return page

    def describe(self):
        return {'pages': len(self.pages), 'features': sorted(self.features),
                'links': sum(len(p.links) for p in self.pages.values())}


def generate(rng, host='a.test', n_pages=None, requisites=True, redirects=True, subdirs=True, spellings=None,
             extra_hosts=(), junk_links=False, link_redirect_targets=False, frames=False, bases=False):
    site = Site(host)
    n = n_pages or rng.choice([3, 5, 8, 12, 20, 40])
    base = 'http://' + host
    dirs = ['/']
    if subdirs:
        dirs += ['/d1/', '/d1/sub/', '/d2/', '/top/in/']
    urls = []
    for i in range(n):
        d = rng.choice(dirs)
        name = rng.choice(['p%d.html' % i, 'p%d.html' % i, 'page%d' % i, 'x%d.htm' % i])
        if rng.random() < 0.1 and d != '/':
            url = base + d            # directory index page
            if url in site.pages:
                url = base + d + name
        else:
            url = base + d + name
        if url in site.pages:
            continue
        site.add(Page(url, 'html'))
        urls.append(url)
    site.start = rng.choice([u for u in urls])
    allow = spellings or SPELLINGS
    html = list(urls)
    # links: random graph guaranteeing reachability of most pages + cycles/diamonds/self links/duplicates
    order = list(html)
    rng.shuffle(order)
    order.remove(site.start)
    order.insert(0, site.start)
    for i, u in enumerate(order[1:], 1):
        parent = order[rng.randrange(0, i)]
        add_link(rng, site, parent, u, 'a', allow)
    for _ in range(rng.randrange(0, 2 * n)):
        a, b = rng.choice(html), rng.choice(html)
        add_link(rng, site, a, b, 'a', allow)
        if a == b:
            site.features.add('self-link')
    for u in html:
        targets = [l['target'] for l in site.pages[u].links]
        if len(targets) != len(set(targets)):
            site.features.add('duplicate-link')
    site.features.add('cycle')      # back edges are generated with high probability; measured by the check
    serial = [0]

    def fresh(kind, ext, d=None):
        serial[0] += 1
        url = base + (d or rng.choice(dirs)) + '%s%d.%s' % (kind, serial[0], ext)
        return site.add(Page(url, {'png': 'img', 'css': 'css', 'js': 'js', 'html': 'leaf'}[ext]))
    if requisites:
        for u in html:
            if rng.random() < 0.5:
                img = fresh('img', 'png')
                if rng.random() < 0.3:
                    # thumbnail markup <a href=X><img src=X></a>: one URL in two roles on one page, the link first
                    add_link(rng, site, u, img.url, 'a', allow)
                    site.features.add('same-url-linked-and-embedded')
                add_link(rng, site, u, img.url, 'img', allow)
                site.features.add('requisite')
                if rng.random() < 0.3:
                    other = rng.choice(html)
                    add_link(rng, site, other, img.url, 'img', allow)     # shared requisite (diamond)
            if rng.random() < 0.25:
                css = fresh('style', 'css')
                add_link(rng, site, u, css.url, 'css', allow)
                site.features.add('css')
                if rng.random() < 0.6:
                    bg = fresh('bg', 'png')
                    add_link(rng, site, css.url, bg.url, 'cssurl', ['relative', 'abs-path', 'absolute'])
                    site.features.add('css-url')
                if rng.random() < 0.35:
                    # a chain of imported style sheets; only the last one refers to the image
                    cur = css
                    for _ in range(rng.choice([1, 2])):
                        imp = fresh('imported', 'css')
                        add_link(rng, site, cur.url, imp.url, 'cssimport', ['relative', 'abs-path', 'absolute'])
                        cur = imp
                    deep = fresh('deep', 'png')
                    add_link(rng, site, cur.url, deep.url, 'cssurl', ['relative', 'abs-path'])
                    site.features.add('css-import-chain')
            if rng.random() < 0.15:
                js = fresh('app', 'js')
                add_link(rng, site, u, js.url, 'script', allow)
    if requisites and frames:
        # framed documents: inline (page requisite) HTML pages that themselves link onwards; each frame page is only
        # ever referenced as a frame, so its recorded link kind does not depend on discovery order
        for u in list(html):
            if rng.random() < 0.12:
                serial[0] += 1
                fr = site.add(Page(base + rng.choice(dirs) + 'frame%d.html' % serial[0], 'html'))
                add_link(rng, site, u, fr.url, 'iframe', allow)
                for _ in range(rng.choice([0, 1, 2])):
                    add_link(rng, site, fr.url, rng.choice(html), 'a', allow)
                site.features.add('iframe')
    if redirects:
        for _ in range(rng.choice([0, 1, 2, 3])):
            serial[0] += 1
            d = rng.choice(dirs)
            r = site.add(Page(base + d + 'r%d' % serial[0], 'redirect'))
            r.status = rng.choice([301, 302, 303, 307, 308])
            # the landing page may live in another directory than the redirecting URL and links onwards relatively
            d2 = d if rng.random() < 0.5 else rng.choice(dirs)
            target = fresh('landing', 'html', d2)
            if rng.random() < 0.6:
                for _ in range(rng.choice([1, 2])):
                    after = fresh('after', 'html', d2)
                    add_link(rng, site, target.url, after.url, 'a', ['relative', 'dot-relative'])
                if requisites and rng.random() < 0.5:
                    pic = fresh('landingimg', 'png', d2)
                    add_link(rng, site, target.url, pic.url, 'img', ['relative'])
                site.features.add('redirect-target-with-relative-links')
            href, cls = spell(rng, r.url, target.url, ['relative', 'abs-path', 'absolute', 'default-port'])
            r.location = (href, target.url)
            target.is_redirect_target = True
            add_link(rng, site, rng.choice(html), r.url, 'a', allow)
            site.features.add('redirect-%d' % r.status)
            if link_redirect_targets:
                # own scenario class: the landing page is also linked directly by some page
                add_link(rng, site, rng.choice(html), target.url, 'a', allow)
                site.features.add('redirect-target-also-linked')
    if junk_links:
        # links that cannot be parsed as URLs, mixed into pages that also carry good links
        for u in html:
            if rng.random() < 0.3:
                for _ in range(rng.choice([1, 2])):
                    site.pages[u].junk.append(rng.choice(['http://[::1/x', 'http://a.test:99999/p', 'http://bad host/',
                                                          'http://a.test:port/', 'http://%zz%/']))
                site.features.add('junk-link')
    for h in extra_hosts:
        # links to another host (out of scope unless spanning is enabled)
        serial[0] += 1
        ext = Page('http://%s/ext%d.html' % (h, serial[0]), 'leaf')
        site.add(ext)
        add_link(rng, site, rng.choice(html), ext.url, 'a', ['absolute'])
        site.features.add('other-host-link')
    if bases:
        apply_bases(site, dirs)
    return site


def apply_bases(site, dirs):
    '''Give some pages a <base href> (absolute, scheme-relative, path-only or relative spelling; a file or a directory)
    and spell their relative links against it.  The base URL is never a page; whether a crawler also treats the href
    of the base element as a link is its own business, so that URL - resolved against the page or against the base
    itself - goes to site.optional.  Uses its own generator so that the main stream is not disturbed.'''
    from urllib.parse import urljoin
    brng = random.Random(len(site.pages) * 7919 + sum(len(u) for u in site.pages))
    root = 'http://' + site.host
    k = 0
    for url in sorted(site.pages):
        page = site.pages[url]
        if page.kind != 'html' or not page.links or brng.random() >= 0.25:
            continue
        k += 1
        bdir = brng.choice(dirs + ['/assets/', '/d1/'])
        base_url = root + bdir + brng.choice(['_base%d', '_base%d.html', '_b%d/']) % k
        href, cls = spell(brng, url, base_url, ['relative', 'relative', 'abs-path', 'abs-path', 'absolute', 'scheme-relative', 'dot-relative'])
        page.base_href, page.base_url = href, base_url
        site.optional.add(base_url)
        site.optional.add(urljoin(base_url, href))
        site.features.add('base-href:' + cls)
        for i, l in enumerate(page.links):
            if split_url(l['target'])[1] != site.host:
                continue
            cls = l['spelling'] if l['spelling'] in ('relative', 'dot-relative') else None
            if cls is None and i % 2 == 0:
                cls = 'relative'
            if cls:
                l['href'], l['spelling'] = spell(brng, base_url, l['target'], [cls])
                site.features.add('link-relative-to-base')
    assert not (site.optional & set(site.pages))


def add_link(rng, site, src, dst, kind, allow):
    page = site.pages[src]
    href, cls = spell(rng, page.base_url or src, dst, allow)
    page.links.append({'href': href, 'kind': kind, 'target': dst, 'spelling': cls})
    site.features.add('spelling:' + cls)


def make_handler(site, robots=None, hosts=None):
    '''Request handler for harness.servers.Server.'''
    def handler(req):
        host = req['host'].lower()
        if host.endswith(':80'):
            host = host[:-3]
        target = req['target']
        if target == '/robots.txt':
            if robots is not None:
                return robots(req)
            return {'status': 404, 'reason': 'Not Found', 'body': b'not found', 'headers': [('Content-Type', 'text/plain')]}
        url = 'http://' + host + target
        page = site.pages.get(url)
        if page is None:
            return {'status': 404, 'reason': 'Not Found', 'body': b'<html><body>404</body></html>',
                    'headers': [('Content-Type', 'text/html; charset=utf-8')]}
        if page.needs_cookie:
            cookie, back = page.needs_cookie
            sent = '; '.join(v for n, v in req['headers'] if n == 'cookie')
            if cookie not in [c.strip() for c in sent.split(';')]:
                # no session yet: back to the page that hands one out
                return {'status': 302, 'reason': 'Found', 'headers': [('Location', back), ('Content-Type', 'text/html; charset=utf-8')],
                        'body': b'<html><body>session needed</body></html>'}
        if page.kind == 'redirect':
            headers = [('Location', page.location[0]), ('Content-Type', 'text/html; charset=utf-8')]
            if page.set_cookie:
                headers.append(('Set-Cookie', page.set_cookie + '; Path=/'))
            return {'status': page.status, 'reason': 'Redirect', 'headers': headers, 'body': b'<html><body>moved</body></html>'}
        return {'status': 200, 'headers': [('Content-Type', page.content_type())], 'body': page.body()}
    return handler


def row_metadata_problems(url, row, rowmap, pages, start):
    '''Problems of the link metadata recorded with a URL-table row, judged against the site graph: root = the start
    URL, parent = a stored page that serves a link to this URL, level = parent's level + 1, inline level = parent's
    inline level + 1 when the parent embeds it (img, frame, stylesheet, script, css url) and none (NULL/0) when the
    parent merely links to it.  When the parent does both, either value is accepted.'''
    problems = []
    if row['root'] != start:
        problems.append('root')
    parent = rowmap.get(row['parent'])
    ppage = pages.get(row['parent'])
    if ppage is not None and ppage.kind == 'redirect':
        ppage = pages.get(ppage.location[1])
    kinds = set(l['kind'] for l in ppage.links if l['target'] == url) if ppage is not None else set()
    if parent is None or not kinds:
        problems.append('parent')
        return problems
    if row['level'] != parent['level'] + 1:
        problems.append('level')
    allowed = set()
    if kinds - set(INLINE_KINDS):
        allowed |= {None, 0}
    if kinds & set(INLINE_KINDS):
        allowed.add((parent['inline_level'] or 0) + 1)
    if row['inline_level'] not in allowed:
        problems.append('inline-level[{}]'.format('+'.join(sorted(kinds))))
    return problems
