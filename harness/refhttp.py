'''Independent HTTP/1.1 response reference decoder (RFC 7230 section 3.3.3 framing).

Written from the RFC; imports nothing from wpull.  decode(stream, method, eof) returns a dict:
  state: 'complete' | 'truncated' (eof before the message was complete) | 'incomplete' (no eof yet)
         | 'malformed' (not a well-formed message by the grammar this decoder accepts)
  status, reason, fields [(lower-name, value)], raw_body (still coded), body (decoded) or coding_error,
  consumed (bytes belonging to this message), framing ('none'|'chunked'|'length'|'close'),
  trailer_cut: True when the body octets were complete but the final CRLF/trailer section was cut.
'''
import re
import zlib

STATUS_RE = re.compile(br'^HTTP/(\d)\.(\d) (\d{3})(?: ([^\r\n]*))?$')
TOKEN_RE = re.compile(br"^[!#$%&'*+\-.^_`|~0-9A-Za-z]+$")


class Malformed(Exception):
    pass


def _read_line(data, pos):
    '''Return (line without terminator, new pos) or (None, pos) if no complete line. Accepts CRLF or LF.'''
    idx = data.find(b'\n', pos)
    if idx < 0:
        return None, pos
    line = data[pos:idx]
    if line.endswith(b'\r'):
        line = line[:-1]
    return line, idx + 1


def parse_head(data):
    '''Return (status, reason, fields, head_len) or None when incomplete.'''
    pos = 0
    line, pos = _read_line(data, pos)
    if line is None:
        return None
    m = STATUS_RE.match(line)
    if not m:
        raise Malformed('status line')
    status = int(m.group(3))
    reason = (m.group(4) or b'').decode('latin-1')
    fields = []
    while True:
        line, pos = _read_line(data, pos)
        if line is None:
            return None
        if line == b'':
            break
        if line[:1] in (b' ', b'\t'):
            if not fields:
                raise Malformed('fold before first field')
            name, value = fields[-1]
            fields[-1] = (name, (value + b' ' + line.strip(b' \t')).strip(b' \t'))
            continue
        if b':' not in line:
            raise Malformed('field without colon')
        name, value = line.split(b':', 1)
        if not TOKEN_RE.match(name):
            raise Malformed('field name')
        fields.append((name.lower(), value.strip(b' \t')))
    fields = [(n.decode('latin-1'), v.decode('latin-1')) for n, v in fields]
    return status, reason, fields, pos


def get_all(fields, name):
    return [v for n, v in fields if n == name]


def decode_content(raw, codings):
    if raw == b'':
        # an empty coded body is accepted as empty (common practice; indistinguishable from "no body")
        return raw
    for coding in reversed(codings):
        c = coding.lower()
        if c in ('identity', ''):
            continue
        if c in ('gzip', 'x-gzip'):
            d = zlib.decompressobj(16 + zlib.MAX_WBITS)
        elif c == 'deflate':
            try:
                d = zlib.decompressobj()
                out = d.decompress(raw) + d.flush()
                if not d.eof:
                    raise zlib.error('incomplete')
                raw = out
                continue
            except zlib.error:
                d = zlib.decompressobj(-zlib.MAX_WBITS)
        else:
            raise Malformed('unknown coding ' + coding)
        out = d.decompress(raw) + d.flush()
        if not d.eof:
            raise zlib.error('incomplete stream')
        raw = out
    return raw


def decode(data, method='GET', eof=True):
    res = {'state': 'incomplete', 'consumed': 0, 'trailer_cut': False}
    try:
        head = parse_head(data)
    except Malformed as e:
        res['state'] = 'malformed'
        res['why'] = str(e)
        return res
    if head is None:
        res['state'] = 'truncated' if eof else 'incomplete'
        res['where'] = 'head'
        return res
    status, reason, fields, pos = head
    res.update(status=status, reason=reason, fields=fields, head_len=pos)
    te = [t.strip().lower() for v in get_all(fields, 'transfer-encoding') for t in v.split(',') if t.strip()]
    cl = get_all(fields, 'content-length')
    raw = None
    if method.upper() == 'HEAD' or 100 <= status < 200 or status in (204, 304):
        res['framing'] = 'none'
        raw = b''
        end = pos
    elif te:
        if te[-1].split(';')[0].strip() == 'chunked':
            res['framing'] = 'chunked'
            out = bytearray()
            p = pos
            state = None
            while True:
                line, p2 = _read_line(data, p)
                if line is None:
                    state = 'cut'
                    break
                size_text = line.split(b';', 1)[0].strip(b' \t')
                if not re.match(br'^[0-9A-Fa-f]+$', size_text):
                    res['state'] = 'malformed'
                    res['why'] = 'chunk size'
                    return res
                size = int(size_text, 16)
                p = p2
                if size == 0:
                    # trailer section
                    while True:
                        line, p2 = _read_line(data, p)
                        if line is None:
                            state = 'trailer_cut'
                            break
                        p = p2
                        if line == b'':
                            state = 'done'
                            break
                        n_v = line.split(b':', 1)
                        if len(n_v) == 2 and line[:1] not in (b' ', b'\t'):
                            res.setdefault('trailers', []).append(
                                (n_v[0].lower().decode('latin-1'), n_v[1].strip(b' \t').decode('latin-1')))
                    break
                if len(data) < p + size:
                    state = 'cut'
                    break
                out.extend(data[p:p + size])
                p += size
                line, p2 = _read_line(data, p)
                if line is None:
                    state = 'cut' if len(data) - p < 2 and True else 'cut'
                    break
                if line != b'':
                    res['state'] = 'malformed'
                    res['why'] = 'chunk terminator'
                    return res
                p = p2
            if state == 'done':
                raw = bytes(out)
                end = p
            elif state == 'trailer_cut':
                raw = bytes(out)
                end = len(data)
                res['trailer_cut'] = True
                if not eof:
                    res['state'] = 'incomplete'
                    return res
            else:
                res['state'] = 'truncated' if eof else 'incomplete'
                res['where'] = 'chunked body'
                res['partial_raw_len'] = len(out)
                return res
        else:
            res['framing'] = 'close'
            if not eof:
                return res
            raw = data[pos:]
            end = len(data)
    elif cl:
        vals = set(v.strip() for c in cl for v in c.split(','))
        if len(vals) != 1 or not re.match(r'^[0-9]+$', list(vals)[0]):
            res['state'] = 'malformed'
            res['why'] = 'content-length'
            return res
        n = int(list(vals)[0])
        res['framing'] = 'length'
        if len(data) - pos < n:
            res['state'] = 'truncated' if eof else 'incomplete'
            res['where'] = 'length body'
            return res
        raw = data[pos:pos + n]
        end = pos + n
    else:
        res['framing'] = 'close'
        if not eof:
            return res
        raw = data[pos:]
        end = len(data)
    res['raw_body'] = raw
    res['consumed'] = end
    res['surplus'] = len(data) - end
    codings = [t.strip() for v in get_all(fields, 'content-encoding') for t in v.split(',') if t.strip()]
    res['codings'] = codings
    if res['framing'] == 'none':
        res['body'] = b''
    else:
        try:
            res['body'] = decode_content(raw, codings)
        except zlib.error as e:
            res['coding_error'] = str(e)
        except Malformed as e:
            res['coding_unknown'] = str(e)
            res['body'] = raw
    res['state'] = 'complete'
    return res
