'''Scripted in-memory FTP server (control + passive data peers) on top of harness.netsim.'''
import asyncio

from harness import netsim


class FTPScript(object):
    '''Behaviour of one scripted FTP server.

    replies: dict command name -> list of reply byte strings to use in order (last one repeats).
    data:    list of payload pieces fed on the data connection.
    ending:  'eof_first' | 'reply_first' | 'missing_final' | 'error_final' (reply: error_final_reply) | 'no_eof'
    segmentation: callable(bytes) -> list of pieces, applied to every control reply.
    '''
    def __init__(self, data_ip='127.0.3.9', data_port=40001):
        self.welcome = b'220 sim ready\r\n'
        self.replies = {
            'USER': [b'331 need password\r\n'], 'PASS': [b'230 logged in\r\n'], 'SIZE': [b'213 5\r\n'],
            'TYPE': [b'200 ok\r\n'], 'REST': [b'350 restarting\r\n'],
            'RETR': [b'150 opening\r\n'], 'LIST': [b'150 here\r\n'], 'MLSD': [b'150 here\r\n'],
        }
        self.final = b'226 done\r\n'
        self.data = [b'hello']
        self.ending = 'eof_first'
        self.data_ip = data_ip
        self.data_port = data_port
        self.segment = lambda b: [b]
        self.pasv_reply = None
        self.unknown = b'500 what\r\n'


class ControlPeer(netsim.Peer):
    def __init__(self, script, data_peer):
        self.script = script
        self.data_peer = data_peer
        self.commands = []          # raw writes (each client write call)
        self.lines = []             # complete CRLF-terminated lines received
        self.events = []            # ordered events for ordering oracles
        self._buf = {}
        self._counts = {}
        self.conns = []

    def connection_made(self, conn):
        self._buf[conn.id] = bytearray()
        self.conns.append(conn)
        conn.spawn(conn.feed_pieces(self.script.segment(self.script.welcome)))

    def data_received(self, conn, data):
        self.commands.append(data)
        buf = self._buf[conn.id]
        buf.extend(data)
        while b'\r\n' in buf or b'\n' in buf:
            idx = buf.find(b'\n')
            line = bytes(buf[:idx + 1])
            del buf[:idx + 1]
            self.lines.append(line)
            self._handle(conn, line)

    def _handle(self, conn, line):
        name = line.split(b' ', 1)[0].strip().upper().decode('latin-1')
        s = self.script
        if name == 'PASV':
            if s.pasv_reply is not None:
                reply = s.pasv_reply
            else:
                h = s.data_ip.split('.')
                reply = ('227 Entering Passive Mode (%s,%s,%s,%s,%d,%d)\r\n' % (
                    h[0], h[1], h[2], h[3], s.data_port >> 8, s.data_port & 255)).encode()
            conn.spawn(conn.feed_pieces(s.segment(reply)))
            return
        if name in ('RETR', 'LIST', 'MLSD'):
            lst = s.replies.get(name, [s.unknown])
            n = self._counts.get(name, 0)
            self._counts[name] = n + 1
            reply = lst[min(n, len(lst) - 1)]
            conn.spawn(self._transfer(conn, reply))
            return
        lst = s.replies.get(name, [s.unknown])
        n = self._counts.get(name, 0)
        self._counts[name] = n + 1
        reply = lst[min(n, len(lst) - 1)]
        conn.spawn(conn.feed_pieces(s.segment(reply)))

    async def _transfer(self, conn, begin_reply):
        s = self.script
        await conn.feed_pieces(s.segment(begin_reply))
        if not begin_reply.startswith(b'1'):
            return
        dp = self.data_peer
        # wait for the client's data connection
        for _ in range(200):
            if dp.conn is not None:
                break
            await asyncio.sleep(0)
        dconn = dp.conn
        if dconn is None:
            return
        if s.ending == 'reply_first':
            self.events.append('final-reply-fed')
            await conn.feed_pieces(s.segment(s.final))
            for _ in range(20):
                await asyncio.sleep(0)
            await dconn.feed_pieces(s.data)
            dconn.feed_eof()
            self.events.append('data-eof')
        else:
            await dconn.feed_pieces(s.data)
            if s.ending != 'no_eof':
                dconn.feed_eof()
                self.events.append('data-eof')
            for _ in range(10):
                await asyncio.sleep(0)
            if s.ending in ('eof_first', 'no_eof'):
                # logged when delivery starts: the client cannot see the reply earlier than that
                self.events.append('final-reply-fed')
                await conn.feed_pieces(s.segment(s.final))
            elif s.ending == 'error_final':
                self.events.append('error-reply-fed')
                await conn.feed_pieces(s.segment(getattr(s, 'error_final_reply', None) or b'451 aborted\r\n'))
            elif s.ending == 'missing_final':
                conn.feed_eof()
                self.events.append('control-eof')
            elif s.ending == 'partial_final':
                # the control connection drops in the middle of the final reply line
                cut = s.final.rstrip(b'\r\n')
                cut = cut[:max(4, len(cut) - 3)]
                self.events.append('partial-final-reply-fed')
                await conn.feed_pieces(s.segment(cut))
                conn.feed_eof()
                self.events.append('control-eof')
        dp.conn = None


class DataPeer(netsim.Peer):
    def __init__(self):
        self.conn = None
        self.connections = 0

    def connection_made(self, conn):
        self.conn = conn
        self.connections += 1


def install(net, script, control_ip='127.0.3.1', control_port=21):
    data = DataPeer()
    control = ControlPeer(script, data)
    net.add_peer(control_ip, control_port, control)
    net.add_peer(script.data_ip, script.data_port, data)
    return control, data
