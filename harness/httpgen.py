'''Generator of HTTP/1.1 responses (wire bytes + classes) and segmentations, shared by C04/C05/C07/C08.'''
import zlib

STATUS_TEXT = {200: 'OK', 201: 'Created', 206: 'Partial Content', 301: 'Moved Permanently', 404: 'Not Found',
               500: 'Internal Server Error', 204: 'No Content', 304: 'Not Modified', 203: 'Non-Authoritative Information',
               202: 'Accepted', 205: 'Reset Content', 207: 'Multi-Status', 300: 'Multiple Choices', 302: 'Found',
               307: 'Temporary Redirect', 400: 'Bad Request', 403: 'Forbidden', 410: 'Gone', 416: 'Range Not Satisfiable',
               418: "I'm a teapot", 502: 'Bad Gateway', 503: 'Service Unavailable', 299: 'Odd', 599: 'Odd'}

BODIES = [
    ('empty', b''),
    ('one', b'x'),
    ('text', b'Hello, world!\n' * 3),
    ('crlf', b'line1\r\nline2\r\n\r\n0\r\n\r\nHTTP/1.1 200 OK\r\n\r\n'),
    ('binary', bytes(range(256))),
    ('html', b'<html><body><a href="/a">a</a><img src="/i.png"></body></html>'),
]


def encode_body(rng, body, coding):
    if coding == 'identity':
        return body
    if coding in ('gzip', 'x-gzip'):
        c = zlib.compressobj(rng.choice([1, 6, 9]), zlib.DEFLATED, 16 + zlib.MAX_WBITS)
    elif coding == 'deflate':
        c = zlib.compressobj(rng.choice([1, 6, 9]), zlib.DEFLATED, zlib.MAX_WBITS)
    elif coding == 'deflate-raw':
        c = zlib.compressobj(rng.choice([1, 6, 9]), zlib.DEFLATED, -zlib.MAX_WBITS)
    else:
        raise AssertionError(coding)
    return c.compress(body) + c.flush()


def chunk_encode(rng, data, style):
    '''style: dict(ext=bool, upper=bool, zeros=bool, trailer=list[(n,v)], sizes=...)'''
    out = bytearray()
    boundaries = []
    pos = 0
    while pos < len(data):
        n = rng.choice([1, 2, 3, 7, 16, 255, len(data)])
        n = min(n, len(data) - pos)
        size = '%x' % n
        if style.get('upper'):
            size = size.upper()
        if style.get('zeros'):
            size = '00' + size
        line = size
        if style.get('ext'):
            line += rng.choice([';ext', ';a=b', '; q="x y"', ';x;y=1'])
        out += line.encode() + b'\r\n'
        boundaries.append(len(out))
        out += data[pos:pos + n] + b'\r\n'
        boundaries.append(len(out))
        pos += n
    last = '0'
    if style.get('zeros'):
        last = '000'
    if style.get('ext'):
        last += ';last'
    out += last.encode() + b'\r\n'
    boundaries.append(len(out))
    for n, v in style.get('trailer', []):
        out += ('%s: %s\r\n' % (n, v)).encode('latin-1')
        boundaries.append(len(out))
    out += b'\r\n'
    return bytes(out), boundaries


HEADER_STYLES = ['canonical', 'lowercase', 'uppercase', 'nospace', 'extraspace', 'fold', 'dup', 'lf', 'emptyvalue', 'blankfold']


def format_head(status, reason, fields, style, version='HTTP/1.1'):
    eol = b'\n' if style == 'lf' else b'\r\n'
    lines = [('%s %d %s' % (version, status, reason)).encode('latin-1')]
    flds = list(fields)
    if style == 'dup':
        flds.insert(0, ('X-Dup', 'one'))
        flds.append(('X-Dup', 'two'))
        flds.append(('x-dup', 'three'))
    if style == 'emptyvalue':
        flds.insert(0, ('X-Empty', ''))
    if style == 'fold':
        flds.insert(0, ('X-Folded', 'first\r\n  second\r\n\tthird'))
    if style == 'blankfold':
        # a folded field whose continuation line holds white space only (obs-fold = CRLF 1*( SP / HTAB )): still inside
        # the header block, wherever it stands among the framing fields
        flds.insert(len(flds) // 2, ('X-Folded', 'first\r\n \t\r\n\tlast'))
    for name, value in flds:
        if style == 'lowercase':
            name = name.lower()
        elif style == 'uppercase':
            name = name.upper()
        if style == 'nospace':
            line = '%s:%s' % (name, value)
        elif style == 'extraspace':
            line = '%s: \t %s  ' % (name, value)
        else:
            line = '%s: %s' % (name, value)
        lines.append(line.encode('latin-1'))
    return eol.join(lines) + eol + eol


def gen_response(rng, allow=None, position='any'):
    '''Return a dict describing one response:
       wire (bytes), then ('keep'|'eof'), method, classes{...}, expect{status, body, framing}, boundaries[]'''
    framing = rng.choice(allow or ['length', 'length', 'chunked', 'chunked', 'close', 'length0', 'te+cl', 'overrun',
                                   'nobody', 'nobody+cl', 'head', 'head+cl', 'chunked-case', 'x-gzip'])
    style = rng.choice(HEADER_STYLES)
    coding = rng.choice(['identity', 'identity', 'gzip', 'deflate', 'deflate-raw'])
    bname, body = rng.choice(BODIES)
    if rng.random() < 0.2:
        bname, body = 'random', bytes(rng.randrange(256) for _ in range(rng.randrange(1, 300)))
    if coding != 'identity' and rng.random() < 0.04:
        # a few KB on the wire that inflate to several MiB (more than a decoder may want to emit from one call)
        bname, body = 'big-compressible', b'\x00' * rng.choice([1 << 20, (1 << 20) + 1, 3 << 20]) + b'tail-of-the-document\n'
    method = 'GET'
    status = rng.choice([200, 200, 200, 201, 206, 301, 404, 500, 203])
    if rng.random() < 0.2:
        # every status outside 1xx/204/304 may carry a body (205 too: RFC 7230 3.3.3 does not exempt it)
        status = rng.choice([202, 205, 205, 207, 300, 302, 307, 400, 403, 410, 416, 418, 502, 503, 299, 599])
    fields = [('Server', 'sim'), ('Content-Type', 'text/html')]
    then = 'keep'
    chunk_style = None
    surplus = b''
    if framing in ('nobody', 'nobody+cl'):
        status = rng.choice([204, 304])
        body = b''
        bname = 'empty'
        coding = 'identity'
    if framing in ('head', 'head+cl'):
        method = 'HEAD'
    coded = encode_body(rng, body, coding)
    if coding != 'identity':
        fields.append(('Content-Encoding', 'deflate' if coding == 'deflate-raw' else coding))
    payload = b''
    boundaries = []
    if framing == 'length':
        fields.append(('Content-Length', str(len(coded))))
        payload = coded
    elif framing == 'length0':
        coded = b''
        body = b''
        bname = 'empty'
        fields = [f for f in fields if f[0] != 'Content-Encoding']
        coding = 'identity'
        fields.append(('Content-Length', '0'))
    elif framing in ('chunked', 'te+cl'):
        chunk_style = {'ext': rng.random() < 0.3, 'upper': rng.random() < 0.3, 'zeros': rng.random() < 0.2,
                       'trailer': rng.choice([[], [], [('X-Trailer', 'v')], [('X-T1', 'a'), ('Expires', 'never')],
                                              # a folded trailer field whose continuation line holds white space only (obs-fold)
                                              [('X-Folded', 'first\r\n \r\n\tlast'), ('X-After', 'yes')], [('X-F', 'a\r\n\t')]])}
        fields.append(('Transfer-Encoding', 'chunked'))
        if framing == 'te+cl':
            fields.append(('Content-Length', str(rng.choice([0, 1, len(coded) + 5, 99999]))))
        payload, boundaries = chunk_encode(rng, coded, chunk_style)
    elif framing == 'badcl':
        # a Content-Length that is no length ("-1" is what some servers send for "unknown"): the body ends with the connection
        fields.append(('Content-Length', rng.choice(['-1', '-1', '-1', '-%d' % max(1, len(coded)), 'abc', '1.5', '12abc'])))
        payload = coded
        then = 'eof'
    elif framing == 'close':
        payload = coded
        then = 'eof'
        if rng.random() < 0.5:
            fields.append(('Connection', 'close'))
    elif framing in ('overrun', 'overrun0'):
        if framing == 'overrun0':
            coded = b''
            body = b''
            bname = 'empty'
            coding = 'identity'
            fields = [f for f in fields if f[0] != 'Content-Encoding']
        elif not coded:
            coded = body = b'nonempty'
            coding = 'identity'
            fields = [f for f in fields if f[0] != 'Content-Encoding']
        fields.append(('Content-Length', str(len(coded))))
        surplus = rng.choice([b'X', b'garbage after body', b'HTTP/1.1 200 OK\r\nContent-Length: 1\r\n\r\nZ', b'\r\n'])
        payload = coded + surplus
    elif framing == 'chunked-case':
        chunk_style = {'ext': False, 'upper': False, 'zeros': False, 'trailer': []}
        fields.append(('Transfer-Encoding', rng.choice(['Chunked', 'CHUNKED', 'chunKed'])))
        payload, boundaries = chunk_encode(rng, coded, chunk_style)
    elif framing == 'obs-text':
        fields.insert(1, ('X-Obs', 'caf\xe9 \x85 next\xa0end'))
        fields.append(('Content-Length', str(len(coded))))
        payload = coded
    elif framing == 'x-gzip':
        coding = 'x-gzip'
        coded = encode_body(rng, body, coding)
        fields = [f for f in fields if f[0] != 'Content-Encoding'] + [('Content-Encoding', 'x-gzip')]
        fields.append(('Content-Length', str(len(coded))))
        payload = coded
    elif framing == 'nobody':
        pass
    elif framing == 'nobody+cl':
        fields.append(('Content-Length', str(rng.choice([0, 5, 120]))))
    elif framing == 'head':
        if rng.random() < 0.5:
            fields.append(('Transfer-Encoding', 'chunked'))  # HEAD reply may carry the GET's framing fields
            framing = 'head+te'
    elif framing == 'head+cl':
        fields.append(('Content-Length', str(rng.choice([0, 10, 4000]))))
    if rng.random() < 0.04:
        # one header line of several KiB (a large cookie, a signed token): far below the header block limit
        fields.insert(1, ('X-Long', 'v' * rng.choice([4000, 4090, 4096, 4200, 6000])))
    linger = False
    if then == 'keep' and framing in ('length', 'chunked', 'chunked-case', 'length0', 'x-gzip') and rng.random() < 0.12:
        # the server announces that it will close the connection but lingers: the client must not use it again
        fields.append(('Connection', rng.choice(['close', 'Close'])))
        linger = True
    head = format_head(status, STATUS_TEXT[status], fields, style)
    if rng.random() < 0.01 and framing != 'interim':
        # a header block (status line and header lines, without the empty line) of exactly the documented limit of the
        # client's reader, 32768 bytes, or a few bytes less: still to be accepted
        limit = rng.choice([32768, 32768, 32767, 32766, 32760])
        eol_len = 1 if style == 'lf' else 2
        for _ in range(3):
            deficit = limit - (len(head) - eol_len)
            if deficit == 0:
                break
            pad = [f for f in fields if f[0] == 'X-Pad']
            have = len(pad[0][1]) if pad else None
            if have is None:
                fields.insert(1, ('X-Pad', 'p' * max(1, deficit - 12)))
            else:
                fields[fields.index(pad[0])] = ('X-Pad', 'p' * max(1, have + deficit))
            head = format_head(status, STATUS_TEXT[status], fields, style)
    interim = b''
    if framing == 'interim':
        fields.append(('Content-Length', str(len(coded))))
        payload = coded
        head = format_head(status, STATUS_TEXT[status], fields, style)
        interim = rng.choice([b'HTTP/1.1 100 Continue\r\n\r\n',
                              b'HTTP/1.1 103 Early Hints\r\nLink: </s.css>; rel=preload\r\n\r\n'])
    wire = interim + head + payload
    bset = set([len(head) - 1, len(head), len(head) + 1, len(wire) - 1] + [len(head) + b for b in boundaries] +
               [len(head) + b - 1 for b in boundaries] + [len(head) + b + 1 for b in boundaries])
    if surplus:
        bset.update([len(wire) - len(surplus), len(wire) - len(surplus) - 1, len(wire) - len(surplus) + 1])
    expect_body = b'' if framing in ('nobody', 'nobody+cl', 'head', 'head+cl', 'head+te') else body
    return {
        'wire': wire, 'then': then, 'method': method, 'head_len': len(interim) + len(head),
        'surplus': len(surplus), 'interim_len': len(interim),
        'classes': {'framing': framing, 'style': style, 'coding': coding, 'body': bname, 'conn_close_linger': linger,
                    'chunk_style': chunk_style and {k: (bool(v) if k != 'trailer' else len(v))
                                                    for k, v in chunk_style.items()}},
        'expect': {'status': status, 'body': expect_body},
        'boundaries': sorted(b for b in bset if 0 < b < len(wire)),
    }


def segmentations(rng, wire, boundaries, n_random=3, every_cut_limit=0):
    '''Yield (class, pieces).'''
    n = len(wire)
    yield 'whole', [wire]
    if n > 1:
        yield 'bytes', [wire[i:i + 1] for i in range(n)]
    cuts = set(boundaries)
    if n <= every_cut_limit:
        cuts.update(range(1, n))
    for c in sorted(cuts):
        if 0 < c < n:
            yield 'cut', [wire[:c], wire[c:]]
    for _ in range(n_random):
        k = rng.randrange(1, 8)
        pts = sorted(set(rng.randrange(1, n) for _ in range(k))) if n > 1 else []
        pieces = []
        prev = 0
        for p in pts + [n]:
            pieces.append(wire[prev:p])
            prev = p
        yield 'random', pieces
