'''Threaded loopback FTP server with a command log (for end-to-end FTP crawls).

tree: {'/pub/': ['a.txt', 'alpha/'], '/pub/a.txt': b'data', ...}  - directories end with '/', their value is the list of
entry names (sub-directories with a trailing '/'); files map to bytes.  Only what a crawler needs is implemented: USER,
PASS, SYST, PWD, CWD, TYPE, PASV, LIST, MLSD (optional), SIZE, REST, RETR, FEAT, NOOP, QUIT.
Every command is logged as {'seq', 'cmd', 'arg', 'path' (absolute, for path commands), 't'}; hooks: on_command(entry).
'''
import socket
import threading
import time


class FTPServer(object):
    def __init__(self, tree, address='127.0.0.1', port=21, mlsd=False, listing_style='unix', on_command=None, on_connect=None):
        self.tree = tree
        self.address = address
        self.port = port
        self.mlsd = mlsd
        self.listing_style = listing_style
        self.on_command = on_command      # may return 'close' (drop the connection) or bytes (sent instead of the normal reply)
        self.on_connect = on_connect      # (connection index) -> None | 'close' | bytes sent instead of the welcome
        self.n_connections = 0
        self.log = []
        self._lock = threading.Lock()
        self._sock = None
        self.stopping = False
        self._conns = set()

    def start(self):
        s = socket.socket(socket.AF_INET, socket.SOCK_STREAM)
        s.setsockopt(socket.SOL_SOCKET, socket.SO_REUSEADDR, 1)
        s.bind((self.address, self.port))
        s.listen(32)
        self._sock = s
        threading.Thread(target=self._accept, daemon=True).start()
        return self

    def stop(self):
        self.stopping = True
        try:
            self._sock.close()
        except OSError:
            pass
        for c in list(self._conns):
            try:
                c.close()
            except OSError:
                pass

    def snapshot(self):
        with self._lock:
            return [dict(e) for e in self.log]

    def _accept(self):
        while not self.stopping:
            try:
                conn, peer = self._sock.accept()
            except OSError:
                return
            self._conns.add(conn)
            threading.Thread(target=self._serve, args=(conn,), daemon=True).start()

    # ---- helpers
    def _resolve(self, cwd, arg):
        if not arg:
            return cwd
        path = arg if arg.startswith('/') else cwd.rstrip('/') + '/' + arg
        parts = []
        for seg in path.split('/'):
            if seg in ('', '.'):
                continue
            if seg == '..':
                if parts:
                    parts.pop()
                continue
            parts.append(seg)
        return '/' + '/'.join(parts)

    def _is_dir(self, path):
        return (path.rstrip('/') + '/') in self.tree

    def _listing(self, path, mlsd=False):
        names = self.tree.get(path.rstrip('/') + '/', [])
        lines = []
        for n in names:
            if n.endswith('@'):
                # a symbolic link: tree[path + 'name@'] is its target text
                name = n[:-1]
                target = self.tree.get(path.rstrip('/') + '/' + n, 'target')
                if mlsd:
                    lines.append('type=symlink;size=4;modify=20200101120000; {}'.format(name))
                elif self.listing_style != 'msdos':
                    lines.append('lrwxrwxrwx 1 user group {:>8} Jan  1  2020 {} -> {}'.format(len(target), name, target))
                continue
            isdir = n.endswith('/')
            name = n.rstrip('/')
            full = path.rstrip('/') + '/' + name
            size = 4096 if isdir else len(self.tree.get(full, b''))
            if mlsd:
                lines.append('type={};size={};modify=20200101120000; {}'.format('dir' if isdir else 'file', size, name))
            elif self.listing_style == 'msdos':
                lines.append('01-01-20  12:00PM  {:>14} {}'.format('<DIR>' if isdir else size, name))
            else:
                lines.append('{} 1 user group {:>8} Jan  1  2020 {}'.format('drwxr-xr-x' if isdir else '-rw-r--r--', size, name))
        return ('\r\n'.join(lines) + ('\r\n' if lines else '')).encode('utf-8')

    def _serve(self, conn):
        cwd = '/'
        pasv = None
        rest = 0

        def send(line):
            conn.sendall(line.encode('utf-8') + b'\r\n')
        try:
            conn.settimeout(30)
            conn.setsockopt(socket.IPPROTO_TCP, socket.TCP_NODELAY, 1)
            with self._lock:
                index = self.n_connections
                self.n_connections += 1
            act = self.on_connect(index) if self.on_connect else None
            if act == 'close':
                return
            if isinstance(act, bytes):
                conn.sendall(act)
            else:
                send('220 verif ftp ready')
            buf = b''
            while not self.stopping:
                while b'\r\n' not in buf:
                    data = conn.recv(4096)
                    if not data:
                        return
                    buf += data
                line, buf = buf.split(b'\r\n', 1)
                text = line.decode('utf-8', 'surrogateescape')
                cmd, _, arg = text.partition(' ')
                cmd = cmd.upper()
                entry = {'cmd': cmd, 'arg': arg, 't': time.monotonic()}
                if cmd in ('LIST', 'MLSD', 'RETR', 'SIZE', 'CWD'):
                    entry['path'] = self._resolve(cwd, arg)
                with self._lock:
                    entry['seq'] = len(self.log)
                    self.log.append(entry)
                if self.on_command:
                    act = self.on_command(entry)
                    if act == 'close':
                        return
                    if isinstance(act, bytes):
                        conn.sendall(act)
                        continue
                if cmd == 'USER':
                    send('331 password please')
                elif cmd == 'PASS':
                    send('230 logged in')
                elif cmd == 'SYST':
                    send('215 UNIX Type: L8')
                elif cmd == 'FEAT':
                    send('211 no features')
                elif cmd == 'NOOP':
                    send('200 ok')
                elif cmd == 'PWD':
                    send('257 "{}" is the current directory'.format(cwd))
                elif cmd == 'CWD':
                    if self._is_dir(entry['path']):
                        cwd = entry['path']
                        send('250 ok')
                    else:
                        send('550 no such directory')
                elif cmd == 'TYPE':
                    send('200 type set')
                elif cmd == 'REST':
                    try:
                        rest = int(arg)
                        send('350 restarting at {}'.format(rest))
                    except ValueError:
                        send('501 bad offset')
                elif cmd == 'PASV':
                    if pasv:
                        pasv.close()
                    pasv = socket.socket(socket.AF_INET, socket.SOCK_STREAM)
                    pasv.bind((self.address, 0))
                    pasv.listen(1)
                    p = pasv.getsockname()[1]
                    send('227 Entering Passive Mode ({},{},{})'.format(self.address.replace('.', ','), p >> 8, p & 255))
                elif cmd == 'SIZE':
                    data = self.tree.get(entry['path'])
                    if isinstance(data, bytes):
                        send('213 {}'.format(len(data)))
                    else:
                        send('550 not a plain file')
                elif cmd in ('LIST', 'MLSD', 'RETR'):
                    if cmd == 'MLSD' and not self.mlsd:
                        send('500 MLSD not understood')
                        continue
                    if pasv is None:
                        send('425 use PASV first')
                        continue
                    if cmd == 'RETR':
                        data = self.tree.get(entry['path'])
                        if not isinstance(data, bytes):
                            send('550 no such file')
                            continue
                        payload = data[rest:]
                        rest = 0
                    else:
                        if not self._is_dir(entry['path']):
                            send('550 no such directory')
                            continue
                        payload = self._listing(entry['path'], mlsd=(cmd == 'MLSD'))
                    send('150 opening data connection')
                    pasv.settimeout(10)
                    try:
                        dconn, _ = pasv.accept()
                    except OSError:
                        send('425 no data connection')
                        continue
                    try:
                        dconn.sendall(payload)
                    finally:
                        dconn.close()
                        pasv.close()
                        pasv = None
                    entry['served'] = True
                    send('226 transfer complete')
                elif cmd == 'QUIT':
                    send('221 bye')
                    return
                else:
                    send('502 not implemented')
        except (OSError, ValueError):
            return
        finally:
            self._conns.discard(conn)
            try:
                conn.close()
            except OSError:
                pass
            if pasv:
                try:
                    pasv.close()
                except OSError:
                    pass
