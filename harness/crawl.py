'''Run the real wpull application (AppArgumentParser -> Builder -> Application.run_sync) in this
process against harness servers, with a static resolver, and read back its URL table.'''
import asyncio
import io
import logging
import os
import socket
import sqlite3
import sys


def make_resolver_class(table):
    from wpull.network.dns import Resolver

    class SimResolver(Resolver):
        '''wpull's Resolver with DNS queries answered from a static table (DNS is under no property).'''
        def __init__(self, *args, **kwargs):
            super().__init__(*args, **kwargs)
            self.dns_python_enabled = False

        @asyncio.coroutine
        def _getaddrinfo(self, host, family=socket.AF_UNSPEC):
            yield from asyncio.sleep(0)
            ip = table.get(host)
            if ip is None:
                try:
                    socket.inet_aton(host)
                    ip = host
                except OSError:
                    from wpull.errors import DNSNotFound
                    raise DNSNotFound('DNS resolution failed: {} not in table'.format(host))
            return [(socket.AF_INET, socket.SOCK_STREAM, socket.IPPROTO_TCP, '', (ip, 0))]
    return SimResolver


def run_app(argv, table, before_run=None, log_path=None, stall_watch=None, tty=False, pipeline_concurrency=None):
    '''Returns dict(exit_status, crashed(bool), log_text).

    stall_watch = (progress function, seconds): a crawl that shows no progress (the function's value does not change) for
    that long is taken to hang; the state of its connection pool is recorded as the witness (a client waiting while every
    slot of its host is checked out by nobody is a deterministic deadlock, not a matter of timing) and the crawl is cancelled.'''
    from wpull.application.options import AppArgumentParser
    from wpull.application.builder import Builder
    loop = asyncio.new_event_loop()
    asyncio.set_event_loop(loop)
    root = logging.getLogger()
    saved_handlers = list(root.handlers)
    saved_level = root.level
    stream = io.StringIO()
    handler = logging.StreamHandler(stream)
    handler.setLevel(logging.WARNING)
    root.addHandler(handler)
    result = {'exit_status': None, 'exception': None}
    saved_stdout = sys.stdout
    if tty:
        # the application prints progress to its error stream (standard output under unit_test); a terminal-like stream
        # there selects the progress bar
        from harness.listeners import TtyStream
        sys.stdout = TtyStream()
    try:
        args = AppArgumentParser().parse_args(argv)
        builder = Builder(args, unit_test=True)
        builder.factory.class_map['Resolver'] = make_resolver_class(table)
        app = builder.build()
        if pipeline_concurrency:
            # this tree parses --concurrent but never hands it to the pipelines: concurrency is set the way its plug-ins set it
            # (PipelineSeries.concurrency, see testing/integration/sample_user_scripts/extensive.plugin.py)
            builder.factory['PipelineSeries'].concurrency = pipeline_concurrency
        if before_run:
            before_run(app, builder)
        if stall_watch:
            progress, seconds = stall_watch
            state = {'value': None, 'since': loop.time()}

            def watch():
                v = progress()
                now = loop.time()
                if v != state['value']:
                    state['value'], state['since'] = v, now
                elif now - state['since'] > seconds:
                    result['stalled'] = True
                    try:
                        pool = builder.factory['ConnectionPool']
                        result['pool_state'] = {str(k): {'ready': len(hp.ready), 'busy': len(hp.busy), 'max': hp.max_connections,
                                                         'waiters': pool._host_pool_waiters.get(k, 0)}
                                                for k, hp in pool.host_pools.items()}
                    except Exception as e:
                        result['pool_state'] = repr(e)
                    for t in asyncio.all_tasks(loop):
                        t.cancel()
                    return
                loop.call_later(0.5, watch)
            loop.call_later(0.5, watch)
        try:
            result['exit_status'] = app.run_sync()
        except BaseException as e:  # noqa
            result['exception'] = '{}: {}'.format(type(e).__name__, e)
    finally:
        sys.stdout = saved_stdout
        for h in list(root.handlers):
            if h not in saved_handlers:
                root.removeHandler(h)
        root.setLevel(saved_level)
        try:
            if not loop.is_closed():
                loop.close()
        except Exception:
            pass
        asyncio.set_event_loop(None)
    result['log'] = stream.getvalue()
    result['crashed'] = 'unexpectedly crashed' in result['log'] or result['exception'] is not None
    return result


def read_table(db_path):
    '''Rows of queued_urls joined with url_strings: list of dicts.'''
    con = sqlite3.connect('file:{}?mode=ro'.format(db_path), uri=True)
    try:
        cur = con.execute(
            'select u.url, q.status, q.try_count, q.level, q.inline_level, q.link_type, p.url, r.url, q.status_code '
            'from queued_urls q join url_strings u on q.url_string_id = u.id '
            'left join url_strings p on q.parent_url_string_id = p.id '
            'left join url_strings r on q.root_url_string_id = r.id order by q.id')
        rows = []
        for row in cur:
            rows.append({'url': row[0], 'status': row[1], 'try_count': row[2], 'level': row[3],
                         'inline_level': row[4], 'link_type': row[5], 'parent': row[6], 'root': row[7],
                         'status_code': row[8]})
        return rows
    finally:
        con.close()
