'''Independent reference scope predicate (imports nothing from wpull).

opts: dict of option values as the CLI defines them.
rec:  dict(level, inline_level, parent_url, root_url, try_count)
url:  the normalized URL string being considered.
rules(url, rec, opts, start_hostnames) -> ordered dict rule name -> bool (only active rules present).
'''
import fnmatch
import re
import urllib.parse

DEFAULT_PORTS = {'http': 80, 'https': 443, 'ftp': 21}


def split(url):
    p = urllib.parse.urlsplit(url)
    host = (p.hostname or '')
    if ':' in host and not host.startswith('['):
        pass
    try:
        port = p.port
    except ValueError:
        port = None
    if port is None:
        port = DEFAULT_PORTS.get(p.scheme)
    return {'scheme': p.scheme, 'hostname': host, 'port': port, 'path': p.path or '/', 'query': p.query}


def dirname_slash(path):
    return path.rsplit('/', 1)[0] + '/'


def rules(url, rec, opts, start_hostnames):
    u = split(url)
    out = {}
    inline = bool(rec.get('inline_level'))
    level = rec.get('level') or 0
    # scheme
    if opts.get('https_only'):
        out['scheme'] = u['scheme'] == 'https'
    else:
        out['scheme'] = u['scheme'] in ('http', 'https', 'ftp')
    # recursion
    if level == 0:
        out['recursion'] = True
    elif inline:
        out['recursion'] = bool(opts.get('page_requisites'))
    else:
        out['recursion'] = bool(opts.get('recursive'))
    # ftp following
    if u['scheme'] == 'ftp' and rec.get('parent_url') and split(rec['parent_url'])['scheme'] in ('http', 'https'):
        out['follow_ftp'] = bool(opts.get('follow_ftp'))
    else:
        out['follow_ftp'] = True
    # no-parent
    if opts.get('no_parent'):
        if inline:
            out['no_parent'] = True
        else:
            top = split(rec['root_url']) if rec.get('root_url') else u
            similar = u['scheme'] == top['scheme'] or (u['scheme'] in ('http', 'https') and
                                                       top['scheme'] in ('http', 'https'))
            if similar and u['hostname'] == top['hostname'] and (u['scheme'] != top['scheme'] or
                                                                 u['port'] == top['port']):
                out['no_parent'] = dirname_slash(u['path']).startswith(dirname_slash(top['path']))
            else:
                out['no_parent'] = True
    # domains
    if opts.get('domains') or opts.get('exclude_domains'):
        ok = True
        if opts.get('domains') and not any(u['hostname'].endswith(d) for d in opts['domains'] if u['hostname']):
            ok = False
        if opts.get('exclude_domains') and any(u['hostname'].endswith(d) for d in opts['exclude_domains']
                                               if u['hostname']):
            ok = False
        out['domains'] = ok
    if opts.get('hostnames') or opts.get('exclude_hostnames'):
        ok = True
        if opts.get('hostnames') and u['hostname'] not in opts['hostnames']:
            ok = False
        if opts.get('exclude_hostnames') and u['hostname'] in opts['exclude_hostnames']:
            ok = False
        out['hostnames'] = ok
    # tries
    if opts.get('tries'):
        out['tries'] = (rec.get('try_count') or 0) < opts['tries']
    # level / requisite depth
    if (opts.get('level') and opts.get('recursive')) or opts.get('page_requisites_level'):
        ok = True
        prl = opts.get('page_requisites_level')
        if prl and inline and rec['inline_level'] > prl:
            ok = False
        elif opts.get('level'):
            if inline:
                ok = level <= opts['level'] + 2
            else:
                ok = level <= opts['level']
        out['level'] = ok
    # regex
    if opts.get('accept_regex') or opts.get('reject_regex'):
        ok = True
        if opts.get('accept_regex') and not re.search(opts['accept_regex'], url):
            ok = False
        if opts.get('reject_regex') and re.search(opts['reject_regex'], url):
            ok = False
        out['regex'] = ok
    # directories (exact path-or-glob match of the path, trailing slash insensitive)
    if opts.get('include_directories') or opts.get('exclude_directories'):
        def under(dirs):
            test = u['path'] if u['path'].endswith('/') else u['path'] + '/'
            for d in dirs:
                pat = d if d.endswith('/') else d + '/'
                if fnmatch.fnmatchcase(test, pat):
                    return True
            return False
        ok = True
        if opts.get('include_directories') and not under(opts['include_directories']):
            ok = False
        if opts.get('exclude_directories') and under(opts['exclude_directories']):
            ok = False
        out['directories'] = ok
    # filename suffix / glob lists
    if opts.get('accept') or opts.get('reject'):
        name = u['path'].rsplit('/', 1)[-1]

        def match(lst):
            return any(re.search(fnmatch.translate(s), name) for s in lst)
        if not name:
            ok = True
        elif opts.get('accept'):
            ok = match(opts['accept']) and not (opts.get('reject') and match(opts['reject']))
        elif opts.get('reject') and match(opts['reject']):
            ok = False
        else:
            ok = True
        out['filename'] = ok
    # span hosts (always active)
    if opts.get('span_hosts'):
        sh = True
    elif u['hostname'] in start_hostnames:
        sh = True
    elif 'page-requisites' in (opts.get('span_hosts_allow') or []) and inline:
        sh = True
    elif 'linked-pages' in (opts.get('span_hosts_allow') or []) and rec.get('parent_url') and \
            split(rec['parent_url'])['hostname'] in start_hostnames:
        sh = True
    else:
        sh = False
    out['span_hosts'] = sh
    return out


def verdict(url, rec, opts, start_hostnames, is_redirect=False):
    r = rules(url, rec, opts, start_hostnames)
    failed = [k for k, v in r.items() if not v]
    if not failed:
        return True, r
    if is_redirect and failed == ['span_hosts']:
        return True, r
    return False, r
