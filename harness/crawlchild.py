'''Child process: run one wpull crawl (for kill/resume experiments).

usage: python -m harness.crawlchild <spec.json>
spec: {argv: [...], table: {host: ip}, kill: {kind, at} | null, count_file: path | null}
kill kinds enforced here (SQL level): before_stmt, after_stmt, before_commit, after_commit.
The hooks sit on SQLAlchemy's Engine events / dialect commit, independent of how wpull structures its
transactions.
'''
import json
import os
import signal
import sys


def install_sql_hooks(kill, counts):
    import sqlalchemy.event
    from sqlalchemy.engine import Engine
    from sqlalchemy.engine.default import DefaultDialect

    def die():
        os.kill(os.getpid(), signal.SIGKILL)

    def before_exec(conn, cursor, statement, parameters, context, executemany):
        s = statement.lstrip().upper()
        if s.startswith('PRAGMA') or s.startswith('SELECT'):
            return
        # (schema creation statements count too: a crawl can be killed while its database is being set up)
        counts['stmt'] += 1
        if s.startswith('CREATE'):
            counts['ddl'] = counts.get('ddl', 0) + 1
        if s.startswith('INSERT') and 'first_insert_stmt' not in counts:
            counts['first_insert_stmt'] = counts['stmt']
        if s.startswith('UPDATE') and 'first_insert_stmt' in counts and 'first_update_stmt' not in counts:
            # the first check-out: everything before it is set-up (schema, storing the start URLs)
            counts['first_update_stmt'] = counts['stmt']
            counts['commits_before_first_update'] = counts['commit']
        if kill and kill['kind'] == 'before_stmt' and counts['stmt'] == kill['at']:
            die()

    def after_exec(conn, cursor, statement, parameters, context, executemany):
        s = statement.lstrip().upper()
        if s.startswith('PRAGMA') or s.startswith('SELECT'):
            return
        if kill and kill['kind'] == 'after_stmt' and counts['stmt'] == kill['at']:
            die()
    sqlalchemy.event.listen(Engine, 'before_cursor_execute', before_exec)
    sqlalchemy.event.listen(Engine, 'after_cursor_execute', after_exec)
    orig_commit = DefaultDialect.do_commit

    def do_commit(self, dbapi_connection):
        # only commits that carry changes are interesting, but SQLite cannot tell us cheaply: count all
        counts['commit'] += 1
        if kill and kill['kind'] == 'before_commit' and counts['commit'] == kill['at']:
            die()
        orig_commit(self, dbapi_connection)
        if kill and kill['kind'] == 'after_commit' and counts['commit'] == kill['at']:
            die()
    DefaultDialect.do_commit = do_commit


def main():
    with open(sys.argv[1]) as f:
        spec = json.load(f)
    import compat
    compat.install()
    import logging
    logging.disable(logging.CRITICAL)
    counts = {'stmt': 0, 'commit': 0}
    install_sql_hooks(spec.get('kill'), counts)
    from harness import crawl
    res = crawl.run_app(spec['argv'], spec['table'])
    out = {'exit_status': res['exit_status'], 'crashed': res['crashed'], 'exception': res['exception'],
           'log': res['log'][-2000:], 'counts': counts}
    if spec.get('result_file'):
        with open(spec['result_file'], 'w') as f:
            json.dump(out, f)
    sys.stdout.flush()
    os._exit(0)


if __name__ == '__main__':
    main()
