'''Run batches of cases in worker subprocesses (subprocess.run style, with timeouts).

target is "module:function"; the function takes one JSON-able job and returns a JSON-able
result.  A worker that dies or times out yields {'_error': ...} for its job, which the
caller must treat as inconclusive (or, where a hang is itself the violation, classify).
'''
import json
import os
import subprocess
import sys
import tempfile
import time

VERIF = os.path.dirname(os.path.dirname(os.path.abspath(__file__)))
PY = os.environ.get('VERIF_PYTHON', '/venv/bin/python')


def child_env(extra=None):
    env = dict(os.environ)
    env['PYTHONHASHSEED'] = '0'
    env['PYTHONPATH'] = VERIF + os.pathsep + os.path.join(VERIF, '.deps')
    env['PYTHONDONTWRITEBYTECODE'] = '1'
    env.setdefault('WPULL_VERIF', '1')
    if extra:
        env.update(extra)
    return env


def run_jobs(target, jobs, nproc=16, timeout=300, env=None, on_result=None):
    '''Run every job in its own short-lived subprocess slot; returns results in order.'''
    results = [None] * len(jobs)
    pending = list(enumerate(jobs))
    pending.reverse()
    running = []   # (index, proc, infile, outfile, start)
    tmpdir = tempfile.mkdtemp(prefix='vpar')
    cenv = child_env(env)
    # every temporary file of the workers (and of the crawler processes they start, which clean up only at a
    # normal interpreter exit) lives below this directory, which is removed when the run ends
    scratch = os.path.join(tmpdir, 't')
    os.makedirs(scratch)
    cenv['TMPDIR'] = scratch
    cenv['VERIF_SCRATCH_ROOT'] = tmpdir      # compat.guard confines the workers' (and their children's) writes to it
    try:
        while pending or running:
            while pending and len(running) < nproc:
                idx, job = pending.pop()
                inpath = os.path.join(tmpdir, 'in%d.json' % idx)
                outpath = os.path.join(tmpdir, 'out%d.json' % idx)
                errpath = os.path.join(tmpdir, 'err%d.txt' % idx)
                with open(inpath, 'w') as f:
                    json.dump(job, f)
                errf = open(errpath, 'wb')
                jenv = cenv
                if isinstance(job, dict) and job.get('_env'):
                    # per-job environment (e.g. PYTHONHASHSEED: the iteration order of sets of scraped links is part of the
                    # behaviour being observed)
                    jenv = dict(cenv, **{k: str(v) for k, v in job['_env'].items()})
                proc = subprocess.Popen(
                    [PY, '-m', 'harness.par', target, inpath, outpath],
                    cwd=scratch, env=jenv, stdout=errf, stderr=subprocess.STDOUT,
                    stdin=subprocess.DEVNULL, start_new_session=True)
                errf.close()
                running.append((idx, proc, inpath, outpath, errpath, time.time()))
            still = []
            for entry in running:
                idx, proc, inpath, outpath, errpath, start = entry
                rc = proc.poll()
                if rc is None:
                    if time.time() - start > timeout:
                        _kill(proc)
                        results[idx] = {'_error': 'timeout', '_stderr': _tail(errpath)}
                        if on_result:
                            on_result(idx, results[idx])
                    else:
                        still.append(entry)
                    continue
                try:
                    with open(outpath) as f:
                        results[idx] = json.load(f)
                except Exception as e:
                    results[idx] = {'_error': 'crash rc=%s %s' % (rc, e),
                                    '_stderr': _tail(errpath)}
                for p in (inpath, outpath, errpath):
                    try:
                        os.unlink(p)
                    except OSError:
                        pass
                if on_result:
                    on_result(idx, results[idx])
            running = still
            if running:
                time.sleep(0.01)
    finally:
        for entry in running:
            _kill(entry[1])
        import shutil
        shutil.rmtree(tmpdir, ignore_errors=True)
    return results


def _tail(path, n=3000):
    try:
        with open(path, 'rb') as f:
            data = f.read()
        return data[-n:].decode('utf-8', 'replace')
    except OSError:
        return ''


def _kill(proc):
    import signal
    try:
        os.killpg(proc.pid, signal.SIGKILL)
    except OSError:
        pass
    try:
        proc.kill()
    except OSError:
        pass
    try:
        proc.wait(timeout=5)
    except Exception:
        pass


def split(items, n):
    '''Split a list into n nearly equal chunks (dropping empty ones).'''
    n = max(1, n)
    k, m = divmod(len(items), n)
    out = []
    pos = 0
    for i in range(n):
        size = k + (1 if i < m else 0)
        if size:
            out.append(items[pos:pos + size])
        pos += size
    return out


def main():
    target, inpath, outpath = sys.argv[1:4]
    modname, funcname = target.split(':')
    import importlib
    mod = importlib.import_module(modname)
    func = getattr(mod, funcname)
    with open(inpath) as f:
        job = json.load(f)
    result = func(job)
    tmp = outpath + '.tmp'
    with open(tmp, 'w') as f:
        json.dump(result, f, default=repr)
    os.replace(tmp, outpath)
    sys.stdout.flush()
    os._exit(0)


if __name__ == '__main__':
    main()
