'''Strict independent WARC/1.0 + per-member gzip + CDX reader (imports nothing from wpull).'''
import base64
import hashlib
import re
import zlib


class WarcError(Exception):
    pass


def split_gzip_members(data):
    '''Return list of (offset, length, inflated bytes). Raises WarcError on garbage.'''
    members = []
    pos = 0
    while pos < len(data):
        d = zlib.decompressobj(16 + zlib.MAX_WBITS)
        try:
            out = d.decompress(data[pos:])
            out += d.flush()
        except zlib.error as e:
            raise WarcError('gzip member at {}: {}'.format(pos, e))
        if not d.eof:
            raise WarcError('truncated gzip member at {}'.format(pos))
        used = len(data) - pos - len(d.unused_data)
        if used <= 0:
            raise WarcError('empty gzip member at {}'.format(pos))
        members.append((pos, used, out))
        pos += used
    return members


FIELD_RE = re.compile(br'^([!#$%&\'*+\-.^_`|~0-9A-Za-z]+):[ \t]*(.*)$')


def parse_record(data, pos=0):
    '''Parse one record starting at pos; return (record dict, next pos).'''
    start = pos
    if not data.startswith(b'WARC/1.0\r\n', pos):
        raise WarcError('bad version line at {}: {!r}'.format(pos, data[pos:pos + 20]))
    pos += len(b'WARC/1.0\r\n')
    fields = []
    problems = []
    while True:
        idx = data.find(b'\r\n', pos)
        if idx < 0:
            raise WarcError('unterminated header at {}'.format(pos))
        line = data[pos:idx]
        pos = idx + 2
        if line == b'':
            break
        if b'\n' in line or b'\r' in line:
            problems.append('bare CR/LF inside header line {!r}'.format(line[:60]))
        if line[:1] in (b' ', b'\t'):
            problems.append('folded (continuation) header line {!r}'.format(line[:60]))
            if fields:
                fields[-1] = (fields[-1][0], fields[-1][1] + b' ' + line.strip())
            continue
        m = FIELD_RE.match(line)
        if not m:
            raise WarcError('malformed header line {!r}'.format(line[:80]))
        fields.append((m.group(1).decode('latin-1'), m.group(2).rstrip(b' \t')))
    names = [n.lower() for n, v in fields]
    fmap = {}
    for n, v in fields:
        fmap.setdefault(n.lower(), []).append(v.decode('utf-8', 'replace'))
    for n in ('warc-type', 'warc-record-id', 'warc-date', 'content-length'):
        if names.count(n) != 1:
            problems.append('field {} occurs {} times'.format(n, names.count(n)))
    try:
        length = int(fmap['content-length'][0])
    except (KeyError, ValueError):
        raise WarcError('bad Content-Length in record at {}'.format(start))
    if not re.match(r'^[0-9]+$', fmap['content-length'][0]):
        problems.append('Content-Length not digits')
    block = data[pos:pos + length]
    if len(block) != length:
        e = WarcError('block shorter than Content-Length at {}'.format(start))
        e.rec_type = fmap.get('warc-type', [None])[0]
        raise e
    pos += length
    if data[pos:pos + 4] != b'\r\n\r\n':
        e = WarcError('record at {} not followed by CRLF CRLF (found {!r}); Content-Length {}'.format(
            start, data[pos:pos + 8], length))
        e.rec_type = fmap.get('warc-type', [None])[0]
        raise e
    pos += 4
    rec = {'offset': start, 'length': pos - start, 'fields': fields, 'fmap': fmap, 'block': block,
           'problems': problems,
           'type': fmap.get('warc-type', [None])[0], 'id': fmap.get('warc-record-id', [None])[0]}
    return rec, pos


def read_warc(data, compressed):
    '''Return list of records; each has file-level 'raw_offset'/'raw_length' (member or record range).'''
    records = []
    if compressed:
        for off, length, inflated in split_gzip_members(data):
            rec, end = parse_record(inflated, 0)
            if end != len(inflated):
                raise WarcError('gzip member at {} holds more than one record ({} extra bytes)'.format(
                    off, len(inflated) - end))
            rec['raw_offset'] = off
            rec['raw_length'] = length
            records.append(rec)
    else:
        pos = 0
        while pos < len(data):
            rec, end = parse_record(data, pos)
            rec['raw_offset'] = pos
            rec['raw_length'] = end - pos
            records.append(rec)
            pos = end
    return records


def b32sha1(data):
    return 'sha1:' + base64.b32encode(hashlib.sha1(data).digest()).decode()


def http_payload_offset(block):
    '''Offset of the first byte after the first empty line of the HTTP message in the block, or None.'''
    pos = 0
    started = False
    while True:
        idx = block.find(b'\n', pos)
        if idx < 0:
            return None
        line = block[pos:idx + 1]
        pos = idx + 1
        if line in (b'\r\n', b'\n'):
            if not started:
                continue        # empty lines in front of the start line belong to no message (RFC 7230 section 3.5)
            return pos
        started = True


def http_status_and_mime(block):
    '''Independent parse of status code and type/subtype of the archived response header.'''
    end = http_payload_offset(block)
    head = block[:end] if end is not None else block
    lines = re.split(br'\r?\n', head)
    while len(lines) > 1 and lines[0] == b'':
        lines.pop(0)
    m = re.match(br'^HTTP/\d+\.\d+[ \t]+(\d{3})', lines[0]) if lines else None
    status = m.group(1).decode() if m else None
    mime = None
    i = 1
    while i < len(lines):
        line = lines[i]
        j = i + 1
        while j < len(lines) and lines[j][:1] in (b' ', b'\t'):
            line += b' ' + lines[j].strip()
            j += 1
        i = j
        if b':' in line:
            n, v = line.split(b':', 1)
            if n.strip().lower() == b'content-type' and mime is None:
                mm = re.match(br'^\s*([A-Za-z0-9-]+/[A-Za-z0-9-]+)', v)
                mime = mm.group(1).decode() if mm else '-'
    return status, mime


def read_cdx(text):
    lines = text.split('\n')
    if lines and lines[-1] == '':
        lines.pop()
    if not lines:
        raise WarcError('empty CDX')
    header = lines[0]
    sep = header[0]
    keys = header.strip().split(sep)
    if keys[0] != 'CDX':
        raise WarcError('CDX header missing: {!r}'.format(header))
    keys = keys[1:]
    rows = []
    for ln in lines[1:]:
        if ln.startswith(sep + 'CDX'):
            raise WarcError('second CDX header line')
        vals = ln.split(sep)
        if len(vals) != len(keys):
            raise WarcError('CDX line has {} fields, expected {}: {!r}'.format(len(vals), len(keys), ln[:120]))
        rows.append(dict(zip(keys, vals)))
    return keys, rows
