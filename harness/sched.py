'''Controlled event loop: explicit, enumerable, replayable scheduling decisions with virtual time.

Model (kept faithful to what asyncio guarantees, so that no impossible interleaving is produced):
  * ready callbacks run in FIFO order, exactly as on the stock loop, but ONE per step, so monitors
    can look at the state between any two callbacks;
  * everything the outside world decides is an *external event* registered by the harness
    (a client program proceeding to its next action, a connect completing or failing, a peer
    closing, an instrumented task finishing, a cancellation, a stop request...).  At every step the
    chooser picks between "run the next ready callback" and each pending external event;
  * time is virtual: when nothing is ready the chooser may also let time advance to the next timer;
  * when nothing is ready, no external event is pending and no timer exists, the loop is QUIESCENT.
'''
import asyncio
import heapq
import random


class Quiescent(Exception):
    pass


class SchedLoop(asyncio.SelectorEventLoop):
    def __init__(self, chooser, max_steps=20000, on_step=None):
        super().__init__()
        self._vclock = 0.0
        self.chooser = chooser
        self.externals = []          # list of (label, callable)
        self.steps = 0
        self.max_steps = max_steps
        self.on_step = on_step
        self.quiescent = False
        self.overrun = False
        self.trace = []              # labels of chosen options at branch points
        self.monitor_error = None

    def time(self):
        return self._vclock

    # ---- external events
    def add_external(self, label, func):
        self.externals.append((label, func))

    def external_future(self, label):
        '''A future that is resolved when the chooser picks this external event.'''
        fut = self.create_future()

        def fire():
            if not fut.done():
                fut.set_result(None)
        self.add_external(label, fire)
        return fut

    def remove_externals(self, prefix):
        self.externals = [(l, f) for l, f in self.externals if not l.startswith(prefix)]

    # ---- core
    def _run_once(self):
        # cancelled timers
        while self._scheduled and self._scheduled[0]._cancelled:
            h = heapq.heappop(self._scheduled)
            h._scheduled = False
        try:
            event_list = self._selector.select(0)
            self._process_events(event_list)
        except Exception:
            pass
        now = self.time()
        while self._scheduled and self._scheduled[0]._when <= now:
            h = heapq.heappop(self._scheduled)
            h._scheduled = False
            if not h._cancelled:
                self._ready.append(h)
        while self._ready and self._ready[0]._cancelled:
            self._ready.popleft()
        options = []
        if self._ready:
            options.append('ready')
        for label, func in self.externals:
            options.append(label)
        if not self._ready and self._scheduled:
            options.append('advance-time')
        if not options:
            self.quiescent = True
            self._stopping = True
            return
        if self.steps >= self.max_steps:
            self.overrun = True
            self._stopping = True
            return
        if len(options) == 1:
            choice = 0
        else:
            choice = self.chooser(options)
            self.trace.append(options[choice])
        picked = options[choice]
        self.steps += 1
        if picked == 'ready':
            handle = self._ready.popleft()
            handle._run()
            handle = None
        elif picked == 'advance-time':
            self._vclock = max(self._vclock, self._scheduled[0]._when)
        else:
            idx = choice - (1 if self._ready else 0)
            label, func = self.externals.pop(idx)
            func()
        if self.on_step is not None and self.monitor_error is None:
            try:
                self.on_step(self)
            except Exception as e:      # monitor failures must not be swallowed by the loop
                self.monitor_error = e
                self._stopping = True

    def run_to_quiescence(self):
        '''Run until quiescent, step cap, or monitor error.'''
        self.quiescent = False
        self.run_forever()
        if self.monitor_error is not None:
            raise self.monitor_error
        return self.quiescent


# ------------------------------------------------------------------------------------------ choosers
class RandomChooser(object):
    def __init__(self, seed, ready_bias=0.5):
        self.rng = random.Random(seed)
        self.vector = []
        self.ready_bias = ready_bias

    def __call__(self, options):
        if options[0] == 'ready' and self.rng.random() < self.ready_bias:
            c = 0
        else:
            c = self.rng.randrange(len(options))
        self.vector.append(c)
        return c


class ReplayChooser(object):
    '''Replays a choice vector; beyond its end always picks option 0. Records the branching widths.'''
    def __init__(self, vector):
        self.prefix = list(vector)
        self.vector = []
        self.widths = []

    def __call__(self, options):
        i = len(self.vector)
        c = self.prefix[i] if i < len(self.prefix) else 0
        if c >= len(options):
            c = len(options) - 1
        self.vector.append(c)
        self.widths.append(len(options))
        return c


def dfs_vectors(run, max_runs, max_depth):
    '''Stateless DFS over choice vectors. run(chooser) executes one schedule.
    Yields the chooser after each run.  Returns when the space (bounded by max_depth branch points) is
    exhausted or max_runs is reached.  exhausted flag available via the returned generator's .exhausted'''
    prefix = []
    runs = 0
    state = {'exhausted': False, 'truncated_depth': False}
    while runs < max_runs:
        chooser = ReplayChooser(prefix)
        run(chooser)
        runs += 1
        yield chooser, state
        vec, widths = chooser.vector, chooser.widths
        if len(vec) > max_depth:
            state['truncated_depth'] = True
        depth = min(len(vec), max_depth)
        # backtrack
        i = depth - 1
        while i >= 0 and vec[i] + 1 >= widths[i]:
            i -= 1
        if i < 0:
            state['exhausted'] = True
            return
        prefix = vec[:i] + [vec[i] + 1]
    return


def new_loop(chooser, max_steps=20000, on_step=None):
    loop = SchedLoop(chooser, max_steps=max_steps, on_step=on_step)
    asyncio.set_event_loop(loop)
    return loop


def close_loop(loop):
    try:
        for t in asyncio.all_tasks(loop):
            t.cancel()
        # let cancellations run on a plain FIFO policy
        loop.externals = []
        loop.on_step = None
        loop.max_steps = loop.steps + 5000
        loop.chooser = lambda options: 0
        loop._stopping = False
        loop.run_forever()
    except Exception:
        pass
    try:
        loop.close()
    except Exception:
        pass
    asyncio.set_event_loop(None)
