'''Real-socket loopback HTTP server with a request log (thread per connection, no asyncio).

A Site maps (host, path?query) -> handler result.  Every request line received is logged with a
monotonic sequence number.  Hosts are separate loopback addresses 127.a.b.c on port 80 so that
default-port spellings and several origins can be exercised.
'''
import os
import random
import socket
import threading
import time


class RequestLog(object):
    def __init__(self):
        self.lock = threading.Lock()
        self.entries = []

    def add(self, entry):
        with self.lock:
            entry['seq'] = len(self.entries)
            self.entries.append(entry)
            return entry['seq']

    def snapshot(self):
        with self.lock:
            return [dict(e) for e in self.entries]


class Server(object):
    '''handler(request dict) -> response dict {status, reason, headers[(n,v)], body, delay, close, raw}
    request dict: host, method, target, headers, addr (the bound address it arrived on), seq'''
    def __init__(self, handler, addresses, port=80, delay_seed=0, max_delay=0.0, extra_ports=()):
        self.handler = handler
        self.extra_ports = tuple(extra_ports)   # further ports every address also listens on (entry['port'] tells them apart)
        self.addresses = list(addresses)
        self.port = port
        self.log = RequestLog()
        self.socks = []
        self.threads = []
        self.stopping = False
        self.rng = random.Random(delay_seed)
        self.rng_lock = threading.Lock()
        self.max_delay = max_delay
        self.on_request = None     # optional callback(entry, phase) used for kill injection
        self.conns = set()

    def start(self):
        for addr in self.addresses:
            for port in (self.port,) + self.extra_ports:
                s = socket.socket(socket.AF_INET, socket.SOCK_STREAM)
                s.setsockopt(socket.SOL_SOCKET, socket.SO_REUSEADDR, 1)
                s.bind((addr, port))
                s.listen(64)
                self.socks.append(s)
                t = threading.Thread(target=self._accept_loop, args=(s, addr, port), daemon=True)
                t.start()
                self.threads.append(t)
        return self

    def stop(self):
        self.stopping = True
        for s in self.socks:
            try:
                s.close()
            except OSError:
                pass
        for c in list(self.conns):
            try:
                c.close()
            except OSError:
                pass

    def _accept_loop(self, sock, addr, port):
        while not self.stopping:
            try:
                conn, peer = sock.accept()
            except OSError:
                return
            self.conns.add(conn)
            t = threading.Thread(target=self._serve, args=(conn, addr, port), daemon=True)
            t.start()

    def _serve(self, conn, addr, port):
        buf = b''
        try:
            conn.settimeout(30)
            # head and body are sent in separate writes: without this every response waits ~40 ms for Nagle/delayed ACK
            conn.setsockopt(socket.IPPROTO_TCP, socket.TCP_NODELAY, 1)
            while not self.stopping:
                while b'\r\n\r\n' not in buf:
                    data = conn.recv(65536)
                    if not data:
                        return
                    buf += data
                head, buf = buf.split(b'\r\n\r\n', 1)
                lines = head.split(b'\r\n')
                parts = lines[0].split(b' ')
                method = parts[0].decode('latin-1')
                target = parts[1].decode('latin-1') if len(parts) > 1 else ''
                headers = []
                for ln in lines[1:]:
                    if b':' in ln:
                        n, v = ln.split(b':', 1)
                        headers.append((n.decode('latin-1').strip().lower(), v.decode('latin-1').strip()))
                hmap = dict(headers)
                length = int(hmap.get('content-length', '0') or 0)
                while len(buf) < length:
                    data = conn.recv(65536)
                    if not data:
                        return
                    buf += data
                body, buf = buf[:length], buf[length:]
                entry = {'host': hmap.get('host', ''), 'method': method, 'target': target, 'headers': headers,
                         'addr': addr, 'port': port, 'raw': head + b'\r\n\r\n', 't': time.monotonic()}
                self.log.add(entry)
                if self.on_request:
                    self.on_request(entry, 'request-line')
                resp = self.handler(entry)
                delay = resp.get('delay')
                if delay is None and self.max_delay:
                    with self.rng_lock:
                        delay = self.rng.random() * self.max_delay
                if delay:
                    time.sleep(delay)
                if resp.get('raw') is not None:
                    data = resp['raw']
                    head_bytes, body_bytes = data, b''
                else:
                    rbody = resp.get('body', b'')
                    hdrs = list(resp.get('headers', []))
                    names = [n.lower() for n, v in hdrs]
                    if 'content-length' not in names and 'transfer-encoding' not in names:
                        hdrs.append(('Content-Length', str(len(rbody))))
                    head_bytes = ('HTTP/1.1 %d %s\r\n' % (resp.get('status', 200), resp.get('reason', 'OK'))).encode()
                    for n, v in hdrs:
                        head_bytes += ('%s: %s\r\n' % (n, v)).encode('latin-1')
                    head_bytes += b'\r\n'
                    body_bytes = b'' if method == 'HEAD' else rbody
                conn.sendall(head_bytes)
                if self.on_request:
                    self.on_request(entry, 'after-headers')
                if body_bytes:
                    half = len(body_bytes) // 2
                    conn.sendall(body_bytes[:half])
                    if self.on_request:
                        self.on_request(entry, 'mid-body')
                    conn.sendall(body_bytes[half:])
                entry['served'] = True
                entry['t_done'] = time.monotonic()
                if self.on_request:
                    self.on_request(entry, 'after-response')
                if resp.get('close'):
                    return
        except (OSError, ValueError, IndexError):
            return
        finally:
            self.conns.discard(conn)
            try:
                conn.close()
            except OSError:
                pass


_block_lock = threading.Lock()
_block_counter = [0]


def allocate_addresses(n, port=80, extra_ports=()):
    '''Find n loopback addresses 127.a.b.{1..n} whose port is free. Returns (addresses, port).'''
    base = os.getpid()
    for attempt in range(400):
        with _block_lock:
            _block_counter[0] += 1
            c = _block_counter[0]
        a = 16 + (base + attempt * 7) % 200
        b = (base // 200 + c * 3 + attempt) % 250 + 1
        addrs = ['127.%d.%d.%d' % (a, b, i + 1) for i in range(n)]
        socks = []
        try:
            for addr in addrs:
                for pt in (port,) + tuple(extra_ports):
                    s = socket.socket(socket.AF_INET, socket.SOCK_STREAM)
                    s.bind((addr, pt))
                    socks.append(s)
            for s in socks:
                s.close()
            return addrs, port
        except OSError:
            for s in socks:
                s.close()
            continue
    raise OSError('no free loopback address block')
