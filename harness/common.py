'''Verdicts, evidence, replay files and known findings shared by all checks.'''
import argparse
import hashlib
import json
import os
import sys
import time

VERIF = os.path.dirname(os.path.dirname(os.path.abspath(__file__)))
REPO = os.environ.get('WPULL_REPO', '/repo')
EXIT_HELD = 0
EXIT_VIOLATION = 1
EXIT_INCONCLUSIVE = 2


def jhash(obj):
    return hashlib.sha1(json.dumps(obj, sort_keys=True, default=repr).encode()).hexdigest()[:16]


def jsonable(obj, depth=0):
    if depth > 6:
        return repr(obj)
    if isinstance(obj, (str, int, float, bool)) or obj is None:
        return obj
    if isinstance(obj, (bytes, bytearray)):
        return {'__bytes__': bytes(obj).decode('latin-1')}
    if isinstance(obj, dict):
        return {str(k): jsonable(v, depth + 1) for k, v in obj.items()}
    if isinstance(obj, (list, tuple, set, frozenset)):
        return [jsonable(v, depth + 1) for v in obj]
    return repr(obj)


def brief(obj, limit=4000):
    '''A witness for reading: long strings / byte strings inside a jsonable value are cut (replays stay exact).'''
    if isinstance(obj, str):
        return obj if len(obj) <= limit else obj[:limit] + '...[{} characters in all]'.format(len(obj))
    if isinstance(obj, dict):
        if set(obj) == {'__bytes__'} and len(obj['__bytes__']) > limit:
            return {'__bytes__': obj['__bytes__'][:limit], '__cut_from__': len(obj['__bytes__'])}
        return {k: brief(v, limit) for k, v in obj.items()}
    if isinstance(obj, list):
        return [brief(v, limit) for v in obj]
    return obj


def unjson(obj):
    if isinstance(obj, dict):
        if set(obj) == {'__bytes__'}:
            return obj['__bytes__'].encode('latin-1')
        return {k: unjson(v) for k, v in obj.items()}
    if isinstance(obj, list):
        return [unjson(v) for v in obj]
    return obj


def load_known_findings():
    path = os.path.join(VERIF, 'known_findings.json')
    try:
        with open(path) as f:
            return json.load(f)
    except FileNotFoundError:
        return {'findings': [], 'fixed': []}


class Check(object):
    '''One run of one property's monitor.

    violation(key, ...) records an observed violation classified by mechanism `key`.
    A key listed in known_findings.json (same property) is reported as KNOWN-FINDING and
    does not fail the run; anything else does.
    '''
    def __init__(self, property_id, level='exploration', argv=None):
        parser = argparse.ArgumentParser()
        parser.add_argument('--tier', default=os.environ.get('VERIF_TIER', 'quick'),
                            choices=['quick', 'thorough'])
        parser.add_argument('--replay', default=None)
        parser.add_argument('--seed', type=int,
                            default=int(os.environ.get('VERIF_SEED', '0') or 0))
        parser.add_argument('--jobs', type=int,
                            default=int(os.environ.get('VERIF_JOBS', '0') or 0))
        parser.add_argument('--scale', type=float,
                            default=float(os.environ.get('VERIF_SCALE', '1') or 1))
        self.args = parser.parse_args(argv)
        self.property_id = property_id
        self.level = level
        self.tier = self.args.tier
        self.seed = self.args.seed
        self.scale = self.args.scale
        self.jobs = self.args.jobs or min(16, os.cpu_count() or 4)
        self.start = time.time()
        self.counters = {}
        self.evaluations = 0
        self.nontrivial = set()
        self.samples = []
        self.violations = {}      # key -> list of details
        self.inconclusive = []
        self.rule = ''
        self.assumptions = []
        self.trusted_base = ['/verif/compat (compatibility runtime for the pinned interpreter)',
                             'CPython 3.12 / zlib / sqlite3 as installed']
        self.extra = {}
        self.exhaustive = None
        kf = load_known_findings()
        self.known = {f['key']: f for f in kf.get('findings', [])
                      if f.get('property') == property_id}
        self.thorough = self.tier == 'thorough'

    # ------------------------------------------------------------------ counters
    def count(self, name, n=1):
        self.counters[name] = self.counters.get(name, 0) + n

    def nontrivial_case(self, key):
        self.nontrivial.add(key if isinstance(key, str) else jhash(key))

    def sample(self, obj, limit=6):
        if len(self.samples) < limit:
            self.samples.append(jsonable(obj))

    def merge(self, part):
        '''Merge a worker's partial result dict.'''
        self.evaluations += part.get('evaluations', 0)
        for k, v in part.get('counters', {}).items():
            self.count(k, v)
        for k in part.get('nontrivial', []):
            self.nontrivial.add(k)
        for s in part.get('samples', []):
            if isinstance(s, dict) and 'slow_case_seconds' in s:
                self.samples.insert(0, s)
            else:
                self.sample(s)
        for v in part.get('violations', []):
            self.violation(v['key'], v.get('detail'), v.get('replay'))
        for i in part.get('inconclusive', []):
            self.inconclusive.append(i)

    # ------------------------------------------------------------------ verdicts
    def violation(self, key, detail=None, replay=None):
        lst = self.violations.setdefault(key, [])
        if len(lst) < 5:
            lst.append({'detail': brief(jsonable(detail)), 'replay': jsonable(replay)})
        self.count('violations_observed')

    def note_inconclusive(self, reason):
        self.inconclusive.append(reason)

    def write_replay(self, key, entry):
        d = os.path.join(VERIF, 'replay', self.property_id)
        os.makedirs(d, exist_ok=True)
        path = os.path.join(d, jhash([key, entry]) + '.json')
        with open(path, 'w') as f:
            json.dump({'property': self.property_id, 'key': key, 'seed': self.seed,
                       'tier': self.tier, 'detail': entry['detail'],
                       'replay': entry['replay']}, f, indent=1, sort_keys=True)
        return path

    def finish(self, min_evaluations=1, required_counters=()):
        wall = time.time() - self.start
        unlisted = []
        known_seen = []
        for key, entries in sorted(self.violations.items()):
            if key in self.known:
                known_seen.append(key)
                print('KNOWN-FINDING: property={} {} [{}]'.format(
                    self.property_id, self.known[key].get('what', key), key))
            else:
                unlisted.append(key)
        missing = [c for c in required_counters if not self.counters.get(c)]
        status = EXIT_HELD
        if unlisted:
            status = EXIT_VIOLATION
        elif self.inconclusive or missing or self.evaluations < min_evaluations:
            status = EXIT_INCONCLUSIVE
        coverage = {
            'evaluations': int(self.evaluations),
            'distinct_nontrivial': len(self.nontrivial),
            'rule': self.rule,
            'samples': self.samples or [],
            'counters': dict(sorted(self.counters.items())),
            'trusted_base': self.trusted_base,
            'known_findings_observed': known_seen,
            'unlisted_violation_keys': unlisted,
            'inconclusive_reasons': self.inconclusive[:20] + [
                'required counter {} is zero'.format(c) for c in missing],
            'verdict': {EXIT_HELD: 'held on what was observed',
                        EXIT_VIOLATION: 'violated',
                        EXIT_INCONCLUSIVE: 'inconclusive'}[status],
        }
        if self.exhaustive is not None:
            coverage['exhaustive'] = bool(self.exhaustive)
        coverage.update(self.extra)
        evidence = {
            'property_id': self.property_id,
            'tier': self.tier,
            'seed': int(self.seed),
            'level': self.level,
            'coverage': coverage,
            'assumptions': self.assumptions,
            'wall_s': round(wall, 2),
            'violations': len(unlisted),
        }
        # evidence is only written for runs against /repo itself (a run against a scratch tree via WPULL_REPO is a
        # mutation experiment and must not replace it)
        if not self.args.replay and os.path.realpath(REPO) == '/repo':
            os.makedirs(os.path.join(VERIF, 'evidence'), exist_ok=True)
            path = os.path.join(VERIF, 'evidence', self.property_id + '.json')
            tmp = path + '.tmp'
            with open(tmp, 'w') as f:
                json.dump(evidence, f, indent=1, sort_keys=True)
            os.replace(tmp, path)
        print('{} tier={} seed={} evaluations={} distinct_nontrivial={} wall={:.1f}s'.format(
            self.property_id, self.tier, self.seed, self.evaluations,
            len(self.nontrivial), wall))
        for k, v in sorted(self.counters.items()):
            print('  {:<48} {}'.format(k, v))
        if len(unlisted) > 12:
            print('  ... {} distinct unlisted violation keys; showing the first 12'.format(len(unlisted)))
        for key in unlisted[:12]:
            path = self.write_replay(key, self.violations[key][0])
            print('  witness[{}]: {}'.format(key, json.dumps(
                self.violations[key][0]['detail'], default=repr)[:600]))
            print('VIOLATION property={} replay={}'.format(self.property_id, path))
        if status == EXIT_INCONCLUSIVE:
            print('INCONCLUSIVE property={} reason={}'.format(
                self.property_id,
                '; '.join(map(str, coverage['inconclusive_reasons'][:5])) or 'too few evaluations'))
        sys.stdout.flush()
        sys.exit(status)


class Part(object):
    '''Partial result accumulated inside a worker; JSON-serialisable via .dump().'''
    def __init__(self):
        self.evaluations = 0
        self.counters = {}
        self.nontrivial = set()
        self.samples = []
        self.violations = []
        self.inconclusive = []
        self._vkeys = {}

    def count(self, name, n=1):
        self.counters[name] = self.counters.get(name, 0) + n

    def nontrivial_case(self, key):
        self.nontrivial.add(key if isinstance(key, str) else jhash(key))

    def sample(self, obj, limit=3):
        if len(self.samples) < limit:
            self.samples.append(jsonable(obj))

    def violation(self, key, detail=None, replay=None):
        n = self._vkeys.get(key, 0)
        self._vkeys[key] = n + 1
        self.count('violations_observed')
        if n < 3:
            self.violations.append({'key': key, 'detail': brief(jsonable(detail)),
                                    'replay': jsonable(replay)})

    def dump(self):
        # the merged counter is re-counted by Check.violation
        counters = dict(self.counters)
        counters.pop('violations_observed', None)
        return {'evaluations': self.evaluations, 'counters': counters,
                'nontrivial': sorted(self.nontrivial), 'samples': self.samples,
                'violations': self.violations, 'inconclusive': self.inconclusive}
