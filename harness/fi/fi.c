/* Syscall-level fault / kill injector (LD_PRELOAD).
 *
 * Environment:
 *   FI_PATH   substring; only paths containing it (and fds opened on them) are monitored
 *   FI_LOG    file that receives one line per monitored operation: "<n> <kind> <path> <size>"
 *   FI_AT     1-based index of the monitored operation at which to act (0 = never)
 *   FI_MODE   err | sticky | short | kill_before | kill_after | kill_torn
 *             (short: the k-th operation, if a write, stores half of its bytes and returns that count; every later
 *              write fails with the errno - what a full disk or a file size limit does)
 *   FI_ERRNO  errno for err/sticky (default ENOSPC)
 *   FI_AT2    optional index of a second operation that fails once (fault sequences)
 *   FI_ARMED  operations are only counted while getenv("FI_ARMED") is "1" (set from Python via os.environ)
 */
#define _GNU_SOURCE
#include <dlfcn.h>
#include <errno.h>
#include <fcntl.h>
#include <stdarg.h>
#include <stdio.h>
#include <stdlib.h>
#include <string.h>
#include <sys/types.h>
#include <sys/uio.h>
#include <unistd.h>

#define MAXFD 4096
static char *fd_path[MAXFD];
static long op_count = 0;
static int sticky_on = 0;
static int log_fd = -2;

static ssize_t (*real_write)(int, const void *, size_t);
static int (*real_close)(int);
static int (*real_open)(const char *, int, ...);
static int (*real_openat)(int, const char *, int, ...);

static void init_real(void) {
    if (!real_write) {
        real_write = dlsym(RTLD_NEXT, "write");
        real_close = dlsym(RTLD_NEXT, "close");
        real_open = dlsym(RTLD_NEXT, "open");
        real_openat = dlsym(RTLD_NEXT, "openat");
    }
}

static int armed(void) {
    const char *a = getenv("FI_ARMED");
    return a && a[0] == '1';
}

static int match_path(const char *path) {
    const char *pat = getenv("FI_PATH");
    return pat && pat[0] && path && strstr(path, pat) != NULL;
}

static void logline(const char *kind, const char *path, long size) {
    const char *lp = getenv("FI_LOG");
    if (!lp) return;
    init_real();
    if (log_fd == -2) {
        log_fd = real_open(lp, O_WRONLY | O_CREAT | O_APPEND, 0644);
    }
    if (log_fd >= 0) {
        char buf[1024];
        int n = snprintf(buf, sizeof buf, "%ld %s %s %ld\n", op_count, kind, path ? path : "?", size);
        if (n > 0) real_write(log_fd, buf, (size_t)n);
    }
}

/* returns: 0 proceed normally, 1 fail with errno, 2 kill before, 3 kill after, 4 torn, 5 short write */
static int decide(const char *kind, const char *path, long size, int is_write) {
    if (!armed()) return 0;
    op_count++;
    logline(kind, path, size);
    const char *at_s = getenv("FI_AT");
    long at = at_s ? atol(at_s) : 0;
    const char *mode = getenv("FI_MODE");
    if (!mode) mode = "err";
    if (sticky_on && is_write) return 1;
    {
        /* optional second single fault (always an error return) for fault sequences */
        const char *at2_s = getenv("FI_AT2");
        long at2 = at2_s ? atol(at2_s) : 0;
        if (at2 > 0 && op_count == at2) return 1;
    }
    if (at <= 0 || op_count != at) return 0;
    if (!strcmp(mode, "err")) return 1;
    if (!strcmp(mode, "sticky")) { sticky_on = 1; return 1; }
    if (!strcmp(mode, "short")) { sticky_on = 1; return is_write ? 5 : 1; }
    if (!strcmp(mode, "kill_before")) return 2;
    if (!strcmp(mode, "kill_after")) return 3;
    if (!strcmp(mode, "kill_torn")) return is_write ? 4 : 2;
    return 0;
}

static int the_errno(void) {
    const char *e = getenv("FI_ERRNO");
    return e ? atoi(e) : ENOSPC;
}

static void die(void) { _exit(137); }

static void remember(int fd, const char *path) {
    if (fd >= 0 && fd < MAXFD) {
        free(fd_path[fd]);
        fd_path[fd] = match_path(path) ? strdup(path) : NULL;
    }
}

static int do_open(int dirfd, const char *path, int flags, mode_t mode, int use_at) {
    init_real();
    int monitored = match_path(path);
    int d = 0;
    if (monitored) d = decide("open", path, flags, 0);
    if (d == 1) { errno = the_errno(); return -1; }
    if (d == 2 || d == 4) die();
    int fd = use_at ? real_openat(dirfd, path, flags, mode) : real_open(path, flags, mode);
    if (d == 3) die();
    remember(fd, path);
    return fd;
}

int open(const char *path, int flags, ...) {
    mode_t mode = 0;
    if (flags & (O_CREAT | O_TMPFILE)) { va_list ap; va_start(ap, flags); mode = va_arg(ap, mode_t); va_end(ap); }
    return do_open(AT_FDCWD, path, flags, mode, 0);
}
int open64(const char *path, int flags, ...) {
    mode_t mode = 0;
    if (flags & (O_CREAT | O_TMPFILE)) { va_list ap; va_start(ap, flags); mode = va_arg(ap, mode_t); va_end(ap); }
    return do_open(AT_FDCWD, path, flags, mode, 0);
}
int openat(int dirfd, const char *path, int flags, ...) {
    mode_t mode = 0;
    if (flags & (O_CREAT | O_TMPFILE)) { va_list ap; va_start(ap, flags); mode = va_arg(ap, mode_t); va_end(ap); }
    return do_open(dirfd, path, flags, mode, 1);
}
int openat64(int dirfd, const char *path, int flags, ...) {
    mode_t mode = 0;
    if (flags & (O_CREAT | O_TMPFILE)) { va_list ap; va_start(ap, flags); mode = va_arg(ap, mode_t); va_end(ap); }
    return do_open(dirfd, path, flags, mode, 1);
}

static const char *path_of(int fd) { return (fd >= 0 && fd < MAXFD) ? fd_path[fd] : NULL; }

ssize_t write(int fd, const void *buf, size_t n) {
    init_real();
    const char *p = path_of(fd);
    if (!p) return real_write(fd, buf, n);
    int d = decide("write", p, (long)n, 1);
    if (d == 1) { errno = the_errno(); return -1; }
    if (d == 5) { if (n > 1) return real_write(fd, buf, n / 2); errno = the_errno(); return -1; }
    if (d == 2) die();
    if (d == 4) { if (n > 1) real_write(fd, buf, n / 2); die(); }
    ssize_t r = real_write(fd, buf, n);
    if (d == 3) die();
    return r;
}

ssize_t pwrite(int fd, const void *buf, size_t n, off_t off) {
    static ssize_t (*real)(int, const void *, size_t, off_t);
    if (!real) real = dlsym(RTLD_NEXT, "pwrite");
    const char *p = path_of(fd);
    if (!p) return real(fd, buf, n, off);
    int d = decide("pwrite", p, (long)n, 1);
    if (d == 1) { errno = the_errno(); return -1; }
    if (d == 5) { if (n > 1) return real(fd, buf, n / 2, off); errno = the_errno(); return -1; }
    if (d == 2) die();
    if (d == 4) { if (n > 1) real(fd, buf, n / 2, off); die(); }
    ssize_t r = real(fd, buf, n, off);
    if (d == 3) die();
    return r;
}
ssize_t pwrite64(int fd, const void *buf, size_t n, off_t off) {
    static ssize_t (*real)(int, const void *, size_t, off_t);
    if (!real) real = dlsym(RTLD_NEXT, "pwrite64");
    const char *p = path_of(fd);
    if (!p) return real(fd, buf, n, off);
    int d = decide("pwrite", p, (long)n, 1);
    if (d == 1) { errno = the_errno(); return -1; }
    if (d == 5) { if (n > 1) return real(fd, buf, n / 2, off); errno = the_errno(); return -1; }
    if (d == 2) die();
    if (d == 4) { if (n > 1) real(fd, buf, n / 2, off); die(); }
    ssize_t r = real(fd, buf, n, off);
    if (d == 3) die();
    return r;
}

ssize_t writev(int fd, const struct iovec *iov, int cnt) {
    static ssize_t (*real)(int, const struct iovec *, int);
    if (!real) real = dlsym(RTLD_NEXT, "writev");
    const char *p = path_of(fd);
    if (!p) return real(fd, iov, cnt);
    long total = 0; for (int i = 0; i < cnt; i++) total += (long)iov[i].iov_len;
    int d = decide("writev", p, total, 1);
    if (d == 1) { errno = the_errno(); return -1; }
    if (d == 2) die();
    if (d == 4) { if (cnt > 0 && iov[0].iov_len > 1) { init_real(); real_write(fd, iov[0].iov_base, iov[0].iov_len / 2); } die(); }
    ssize_t r = real(fd, iov, cnt);
    if (d == 3) die();
    return r;
}

#define SIMPLE_FD_OP(name, kindstr, is_w) \
int name(int fd) { \
    static int (*real)(int); \
    if (!real) real = dlsym(RTLD_NEXT, #name); \
    const char *p = path_of(fd); \
    if (!p) return real(fd); \
    int d = decide(kindstr, p, 0, is_w); \
    if (d == 1) { errno = the_errno(); return -1; } \
    if (d == 2 || d == 4) die(); \
    int r = real(fd); \
    if (d == 3) die(); \
    return r; \
}
SIMPLE_FD_OP(fsync, "fsync", 1)
SIMPLE_FD_OP(fdatasync, "fdatasync", 1)

int close(int fd) {
    init_real();
    const char *p = path_of(fd);
    if (!p) return real_close(fd);
    char *copy = strdup(p);
    int d = decide("close", copy, 0, 0);
    if (d == 2 || d == 4) die();
    /* a failing close still releases the descriptor (Linux semantics) */
    int r = real_close(fd);
    free(fd_path[fd]); fd_path[fd] = NULL;
    free(copy);
    if (d == 3) die();
    if (d == 1) { errno = the_errno(); return -1; }
    return r;
}

int ftruncate(int fd, off_t len) {
    static int (*real)(int, off_t);
    if (!real) real = dlsym(RTLD_NEXT, "ftruncate");
    const char *p = path_of(fd);
    if (!p) return real(fd, len);
    int d = decide("ftruncate", p, (long)len, 0);
    if (d == 1) { errno = the_errno(); return -1; }
    if (d == 2 || d == 4) die();
    int r = real(fd, len);
    if (d == 3) die();
    return r;
}
int ftruncate64(int fd, off_t len) {
    static int (*real)(int, off_t);
    if (!real) real = dlsym(RTLD_NEXT, "ftruncate64");
    const char *p = path_of(fd);
    if (!p) return real(fd, len);
    int d = decide("ftruncate", p, (long)len, 0);
    if (d == 1) { errno = the_errno(); return -1; }
    if (d == 2 || d == 4) die();
    int r = real(fd, len);
    if (d == 3) die();
    return r;
}

int unlink(const char *path) {
    static int (*real)(const char *);
    if (!real) real = dlsym(RTLD_NEXT, "unlink");
    if (!match_path(path)) return real(path);
    int d = decide("unlink", path, 0, 0);
    if (d == 1) { errno = the_errno(); return -1; }
    if (d == 2 || d == 4) die();
    int r = real(path);
    if (d == 3) die();
    return r;
}
int unlinkat(int dirfd, const char *path, int flags) {
    static int (*real)(int, const char *, int);
    if (!real) real = dlsym(RTLD_NEXT, "unlinkat");
    if (!match_path(path)) return real(dirfd, path, flags);
    int d = decide("unlink", path, 0, 0);
    if (d == 1) { errno = the_errno(); return -1; }
    if (d == 2 || d == 4) die();
    int r = real(dirfd, path, flags);
    if (d == 3) die();
    return r;
}
int rename(const char *a, const char *b) {
    static int (*real)(const char *, const char *);
    if (!real) real = dlsym(RTLD_NEXT, "rename");
    if (!match_path(a) && !match_path(b)) return real(a, b);
    int d = decide("rename", a, 0, 0);
    if (d == 1) { errno = the_errno(); return -1; }
    if (d == 2 || d == 4) die();
    int r = real(a, b);
    if (d == 3) die();
    return r;
}
