'''Workload shared by C04 / C05 / C07: real HTTP client + real WARCRecorder on scripted peers.

run_case(case) executes one generated case in a temp dir and returns observations:
  exchanges: [{url, request_bytes (as received by the peer), response_bytes (what the peer sent that belongs to the
               response), error, classes}]
  files: {name: bytes} of everything the recorder left under the prefix
plus the recorder configuration.  The oracles live in the checks.
'''
import glob
import logging
import os
import random
import shutil
import tempfile

from harness import httpgen, httpdrive


def gen_config(rng):
    return {
        'compress': rng.random() < 0.5,
        'digests': rng.random() < 0.85,
        'cdx': rng.random() < 0.7,
        # (0 is what --warc-max-size inf / 0 parses to: a limit every file exceeds at once)
        'max_size': rng.choice([None, None, 300, 1200, 5000, 0]),
        # --warc-move: finished files are moved to another directory
        'move': rng.random() < 0.15,
        'log': rng.random() < 0.3,
        'appending': rng.random() < 0.3,
        'dedup': rng.random() < 0.25,
        # a second, non-appending run on the same prefix (only without size rollover): starts over
        'rerun': rng.random() < 0.15,
        'extra_fields': rng.choice([None, None, [('operator', 'verif')],
                                    [('note', 'x' * 1500), ('sémantique', 'ünï: cödé'), ('a:b', 'c: d')],
                                    [('multi', 'line1\r\nline2')]]),
    }


def gen_case(rng, allow=None, n_max=6, deviations=False):
    k = rng.choice([1, 2, 3, 4, n_max])
    core = allow or ['length', 'length', 'chunked', 'chunked', 'close', 'length0', 'te+cl', 'overrun', 'nobody',
                     'head', 'nobody+cl', 'head+cl', 'x-gzip', 'chunked-case', 'badcl']
    seq = []
    for i in range(k):
        r = httpgen.gen_response(rng, allow=core)
        # Content-Type variety for the CDX 'm' column
        seq.append(r)
        if r['classes']['framing'] == 'overrun':
            # known C08 finding: surplus may stay buffered and poison the next exchange on the connection;
            # an overrun is therefore always the last exchange of a WARC workload sequence
            break
    if rng.random() < 0.05 and seq[-1]['classes']['framing'] not in ('overrun', 'interim'):
        # a sloppy server: an empty line in front of the status line of the last response (a client may skip it or give
        # the exchange up; what it archives and indexes must be consistent either way)
        last = seq[-1]
        last['wire'] = b'\r\n' + last['wire']
        last['head_len'] += 2
        last['boundaries'] = [1, 2, 3] + [b + 2 for b in last['boundaries']]
        last['classes'] = dict(last['classes'], style='blank-line-first')
        last['then'] = 'eof'
    special = rng.random()
    if special < 0.04:
        # a length-delimited response followed, in the same segment, by bytes that look like a complete response of their own
        # (a confused or hostile server), then an ordinary exchange with the same host: the forged bytes belong to no exchange
        import zlib as _z
        first = httpgen.gen_response(rng, allow=['length'])
        # (with an empty body no body read happens at all and the surplus is never looked at: C08's recorded finding)
        while first['surplus'] or first['classes']['conn_close_linger'] or len(first['wire']) > 3000 or len(first['wire']) <= first['head_len']:
            first = httpgen.gen_response(rng, allow=['length'])
        forged = b'HTTP/1.1 200 OK\r\nContent-Type: text/html\r\nContent-Length: 6\r\n\r\nforged'
        first['wire'] += forged
        first['surplus'] = len(forged)
        first['fixed_cuts'] = [len(first['wire']) - len(forged) - 1] if rng.random() < 0.5 else []
        first['classes'] = dict(first['classes'], framing='overrun-forged-response')
        second = httpgen.gen_response(rng, allow=['length', 'chunked'])
        seq = [first, second]
        for r in seq:
            if not r.get('fixed_cuts'):
                r['fixed_cuts'] = r.get('fixed_cuts') or []
        first['whole'] = True
    elif special < 0.08:
        # a body that ends with the connection, coded as two gzip members that arrive in separate segments
        import gzip as _g
        a, b2 = _g.compress(b'first member ' * rng.randrange(1, 30)), _g.compress(b'second member ' * rng.randrange(1, 30))
        head = b'HTTP/1.1 200 OK\r\nServer: sim\r\nContent-Type: text/plain\r\nContent-Encoding: gzip\r\n\r\n'
        last = {'wire': head + a + b2, 'then': 'eof', 'method': 'GET', 'head_len': len(head), 'surplus': 0, 'interim_len': 0,
                'classes': {'framing': 'close', 'style': 'canonical', 'coding': 'gzip-two-members', 'body': 'text', 'conn_close_linger': False,
                            'chunk_style': None},
                'expect': {'status': 200, 'body': None}, 'boundaries': [len(head) + len(a)],
                'fixed_cuts': [len(head) + len(a)] + ([len(head) + len(a) + 5] if rng.random() < 0.5 else [])}
        seq = seq[:-1] + [last] if seq[-1]['classes']['framing'] != 'overrun' else [last]
    case = {'config': gen_config(rng), 'seq': seq, 'seg_seed': rng.randrange(1 << 30),
            'seg_mode': rng.choice(['whole', 'bytes', 'random', 'random', 'cut'])}
    if seq[0].get('whole'):
        case['seg_mode'] = 'whole'
        case['whole_only'] = True
    if seq[-1]['classes']['framing'] in ('close', 'length') and rng.random() < 0.15:
        # the server goes silent in the middle of the last response body: the client gives up after its read timeout, the
        # exchange is not completed (and must not be archived as if it were)
        last = seq[-1]
        lo = last['head_len'] + 1
        if lo < len(last['wire']):
            case['stall_last_at'] = rng.randrange(lo, len(last['wire']) + (1 if last['then'] == 'eof' else 0))
    if case['config']['max_size'] == 0:
        case['config']['rerun'] = False        # (the fresh second run is about a prefix whose file names it takes over exactly)
    if case['config'].get('move') and (case['config']['appending'] or case['config']['rerun']):
        case['config']['move'] = False         # (a later run would not find the files of the earlier one)
    if case['config']['rerun'] and case['config']['max_size'] and not case['config']['appending']:
        case['config']['compress'] = False      # (sizes of gzip members vary with the record ids: file numbering would too)
        case['config']['dedup'] = False
    if rng.random() < 0.1 and not any(r['classes']['framing'] in ('overrun', 'overrun0', 'overrun-forged-response', 'nobody+cl', 'head+cl') for r in seq):
        # the client option --ignore-length (Content-Length not trusted; such bodies end with the connection): every
        # response is followed by the end of its connection
        case['config']['ignore_length'] = True
        for r in seq:
            r['then'] = 'eof'
    if rng.random() < 0.2:
        case['ftp'] = [{'url': 'ftp://f.test/dir%d/' % i + ('' if listing else 'file%d.bin' % i), 'listing': listing,
                        'data': list(b'-rw-r--r-- 1 u g 5 Jan  1 12:00 a.txt\r\n' if listing else
                                     bytes(rng.randrange(256) for _ in range(rng.randrange(0, 200)))),
                        'multiline_welcome': rng.random() < 0.5}
                       for i, listing in enumerate([rng.random() < 0.4 for _ in range(rng.choice([1, 2]))])]
    return case


def pieces_for(rng, r, mode):
    wire = r['wire']
    if r.get('fixed_cuts'):
        # this response is always delivered in these pieces (what it is about depends on where the reads end)
        out, prev = [], 0
        for c in r['fixed_cuts'] + [len(wire)]:
            out.append(wire[prev:c])
            prev = c
        return [x for x in out if x]
    if mode == 'whole' or len(wire) < 2:
        return [wire]
    if mode == 'bytes':
        return [wire[i:i + 1] for i in range(len(wire))]
    if mode == 'cut':
        c = rng.choice(r['boundaries']) if r['boundaries'] else len(wire) // 2
        return [wire[:c], wire[c:]]
    pts = sorted(set(rng.randrange(1, len(wire)) for _ in range(rng.randrange(1, 8))))
    out = []
    prev = 0
    for p in pts + [len(wire)]:
        out.append(wire[prev:p])
        prev = p
    return out


def run_ftp_sessions(recorder, specs):
    '''FTP file / listing transfers recorded by the same recorder (control-conversation + resource records).'''
    import asyncio
    import io
    from harness import netsim, ftpsim
    from wpull.network.pool import ConnectionPool
    from wpull.protocol.ftp.client import Client
    from wpull.protocol.ftp.request import Request
    results = []

    async def main():
        net = netsim.Net().install()
        try:
            for spec in specs:
                script = ftpsim.FTPScript()
                script.data = [bytes(spec['data'])]
                if spec.get('multiline_welcome'):
                    script.welcome = b'220-hello\r\n welcome to sim\r\n220 ready\r\n'
                net.peers.clear()
                ftpsim.install(net, script)
                pool = ConnectionPool(resolver=netsim.StaticResolver({'f.test': '127.0.3.1'}))
                client = Client(connection_pool=pool)
                recorder.listen_to_ftp_client(client)
                request = Request(spec['url'])
                buf = io.BytesIO()
                try:
                    session = client.session()
                    with session:
                        if spec['listing']:
                            await session.start_listing(request)
                            await session.download_listing(buf)
                        else:
                            await session.start(request)
                            await session.download(buf)
                    results.append({'url': spec['url'], 'error': None, 'data': bytes(spec['data'])})
                except Exception as e:
                    results.append({'url': spec['url'], 'error': type(e).__name__})
                for _ in range(20):
                    await asyncio.sleep(0)
                client.close()
        finally:
            net.uninstall()
    netsim.run(main(), timeout=60)
    return results


STAND_IN_YOUTUBE_DL = '''#!{python}
# stand-in for youtube-dl: writes the *.info.json files that --write-info-json leaves for a page with N videos
import json, sys
args = sys.argv[1:]
template = args[args.index('--output') + 1]
n = {n}
for i in range(n):
    name = template.replace('%(id)s', 'vid%03d' % i).replace('%(format_id)s', '22').replace('%(ext)s', 'info.json')
    with open(name, 'w') as f:
        json.dump({{'id': 'vid%03d' % i, 'title': 'video %d' % i, 'formats': [{{'format_id': '22'}}] * (i + 1)}}, f)
print('[stand-in] wrote', n, 'info files')
'''


def gen_coprocessor_case(rng):
    '''Records that do not come from an HTTP or FTP session: the youtube-dl coprocessor archives the metadata files the
    external program leaves behind (one per video; several for a playlist page).'''
    cfg = gen_config(rng)
    cfg.update({'appending': False, 'dedup': False, 'rerun': False, 'move': False})
    return {'coprocessor': True, 'config': cfg, 'videos': rng.choice([1, 2, 3, 5]), 'seg_seed': rng.randrange(1 << 30), 'seg_mode': 'whole', 'seq': []}


def run_coprocessor_case(case, keep_dir=None):
    import asyncio
    import sys
    from wpull.warc.recorder import WARCRecorder, WARCRecorderParams
    from wpull.processor.coprocessor.youtubedl import Session
    from wpull.url import URLInfo
    cfg = case['config']
    tmp = keep_dir or tempfile.mkdtemp(prefix='vwarc')
    prefix = os.path.join(tmp, 'out')
    root_logger = logging.getLogger()
    saved_level = root_logger.level
    saved_handlers = list(root_logger.handlers)
    obs = {'config': cfg, 'exchanges': [], 'files': {}, 'error': None, 'seg_mode': 'whole'}
    script = os.path.join(tmp, 'stand-in-youtube-dl')
    with open(script, 'w') as f:
        f.write(STAND_IN_YOUTUBE_DL.format(python=sys.executable, n=case['videos']))
    os.chmod(script, 0o755)

    class _Record(object):
        url = 'http://h.test/watch?v=list'
        url_info = URLInfo.parse(url)

    class _Item(object):
        url_record = _Record()

    class _Writer(object):
        def extra_resource_path(self, suffix):
            return os.path.join(tmp, 'page.html' + suffix)

    async def main():
        recorder = WARCRecorder(prefix, params=WARCRecorderParams(
            compress=cfg['compress'], extra_fields=cfg['extra_fields'], temp_dir=tmp, log=cfg['log'], digests=cfg['digests'],
            cdx=cfg['cdx'], max_size=cfg['max_size']))
        session = Session(('127.0.0.1', 8888), script, tmp, _Item(), _Writer(), None, recorder, False, True)
        try:
            await session.run()
        except Exception as e:      # noqa
            obs['error'] = '{}: {}'.format(type(e).__name__, str(e)[:200])
        finally:
            session.close()
        try:
            recorder.close()
        except Exception as e:       # noqa
            obs['close_error'] = '{}: {}'.format(type(e).__name__, str(e)[:200])
    try:
        from harness import netsim
        netsim.run(main(), timeout=60)
        for path in sorted(glob.glob(prefix + '*')):
            with open(path, 'rb') as f:
                obs['files'][os.path.basename(path)] = f.read()
        obs['leftover_tmp'] = []
    finally:
        for h in list(root_logger.handlers):
            if h not in saved_handlers:
                root_logger.removeHandler(h)
        root_logger.setLevel(saved_level)
        if not keep_dir:
            shutil.rmtree(tmp, ignore_errors=True)
    return obs


REDIRECT_TARGETS = [
    # (Location as the server writes it, the URL that is requested after normalisation)
    ('/three?x=1#section-3', 'http://h.test/three?x=1'),
    ('HTTP://H.TEST/four/a%7eb', 'http://h.test/four/a%7Eb'),
    ('http://h.test:80/five/./six/../seven', 'http://h.test/five/seven'),
    ('/eight nine', 'http://h.test/eight%20nine'),
    ('//h.test/ten?q=a b#f', 'http://h.test/ten?q=a%20b'),
    ('/plain', 'http://h.test/plain'),
]


def gen_redirect_case(rng):
    '''A web session (the layer that follows redirects) under the recorder: the request for a redirect target is built from
    the Location field, whose spelling need not be the normalised one.'''
    cfg = gen_config(rng)
    cfg.update({'appending': False, 'dedup': False, 'rerun': False, 'move': False})
    hops = rng.sample(REDIRECT_TARGETS, rng.choice([1, 2, 3]))
    return {'redirects': True, 'config': cfg, 'hops': hops, 'codes': [rng.choice([301, 302, 303, 307, 308]) for _ in hops],
            'seg_seed': rng.randrange(1 << 30), 'seg_mode': 'whole', 'seq': []}


def run_redirect_case(case, keep_dir=None):
    import asyncio
    import io
    from harness import netsim
    from wpull.warc.recorder import WARCRecorder, WARCRecorderParams
    from wpull.network.pool import ConnectionPool
    from wpull.protocol.http.client import Client
    from wpull.protocol.http.web import WebClient
    from wpull.protocol.http.request import Request
    cfg = case['config']
    tmp = keep_dir or tempfile.mkdtemp(prefix='vwarc')
    prefix = os.path.join(tmp, 'out')
    root_logger = logging.getLogger()
    saved_level = root_logger.level
    saved_handlers = list(root_logger.handlers)
    obs = {'config': cfg, 'exchanges': [], 'files': {}, 'error': None, 'seg_mode': 'whole'}
    urls = ['http://h.test/start'] + [canon for loc, canon in case['hops']]
    wires = []
    for i, (loc, canon) in enumerate(case['hops']):
        wires.append(('HTTP/1.1 %d Moved\r\nLocation: %s\r\nContent-Length: 5\r\nContent-Type: text/html\r\n\r\nmoved' % (case['codes'][i], loc)).encode('latin-1'))
    wires.append(b'HTTP/1.1 200 OK\r\nContent-Type: text/html\r\nContent-Length: 4\r\n\r\ndone')
    classes = {'framing': 'length', 'style': 'canonical', 'coding': 'identity', 'body': 'text', 'conn_close_linger': False, 'chunk_style': None}

    async def main():
        net = netsim.Net().install()
        try:
            peer = netsim.HTTPScriptPeer([{'pieces': [w], 'then': 'keep'} for w in wires])
            net.add_peer('127.0.0.1', 80, peer)
            recorder = WARCRecorder(prefix, params=WARCRecorderParams(
                compress=cfg['compress'], extra_fields=cfg['extra_fields'], temp_dir=tmp, log=cfg['log'], digests=cfg['digests'],
                cdx=cfg['cdx'], max_size=cfg['max_size']))
            http_client = Client(connection_pool=ConnectionPool(resolver=netsim.StaticResolver()))
            recorder.listen_to_http_client(http_client)
            web = WebClient(http_client=http_client)
            session = web.session(Request(urls[0]))
            error = None
            try:
                with session:
                    n = 0
                    while not session.done() and n < 10:
                        n += 1
                        await session.start()
                        await session.download(file=io.BytesIO())
            except Exception as e:       # noqa
                error = type(e).__name__
            try:
                recorder.close()
            except Exception as e:       # noqa
                obs['close_error'] = '{}: {}'.format(type(e).__name__, str(e)[:200])
            try:
                http_client.close()
            except Exception:
                pass
            for i, w in enumerate(wires):
                if i < len(peer.requests):
                    # the URL of an exchange is what went over the wire: Host field + request target
                    head = peer.requests[i][1].split(b'\r\n\r\n', 1)[0].decode('latin-1')
                    target = head.split(' ', 2)[1]
                    host = [ln.split(':', 1)[1].strip() for ln in head.split('\r\n')[1:] if ln.lower().startswith('host:')][0]
                    urls[i] = 'http://' + host + target
                obs['exchanges'].append({'url': urls[i], 'request_bytes': peer.requests[i][1] if i < len(peer.requests) else None,
                                         'response_bytes': w, 'error': error if i >= len(peer.requests) else None, 'classes': classes,
                                         'method': 'GET', 'round': 0, 'expect_revisit': False})
        finally:
            net.uninstall()
    try:
        netsim.run(main(), timeout=60)
        for path in sorted(glob.glob(prefix + '*')):
            with open(path, 'rb') as f:
                obs['files'][os.path.basename(path)] = f.read()
        obs['leftover_tmp'] = []
    finally:
        for h in list(root_logger.handlers):
            if h not in saved_handlers:
                root_logger.removeHandler(h)
        root_logger.setLevel(saved_level)
        if not keep_dir:
            shutil.rmtree(tmp, ignore_errors=True)
    return obs


def gen_overlap_case(rng):
    '''Several exchanges in flight at once (as with --concurrent N) on one recorder that rolls its file over at a small
    size: records are started before and written after a rollover that another session caused.'''
    cfg = gen_config(rng)
    cfg.update({'max_size': rng.choice([300, 700, 1500, 4000, None]), 'appending': False, 'dedup': False, 'rerun': False, 'log': rng.random() < 0.2})
    streams = []
    for k in range(rng.choice([2, 3, 4])):
        streams.append([httpgen.gen_response(rng, allow=['length', 'length', 'chunked', 'length0', 'nobody'])
                        for _ in range(rng.choice([1, 2, 3]))])
    return {'overlap': True, 'config': cfg, 'streams': streams, 'seg_seed': rng.randrange(1 << 30), 'seg_mode': 'overlap',
            'seq': [r for st in streams for r in st]}


def run_overlap_case(case, keep_dir=None):
    import asyncio
    from harness import netsim
    from wpull.warc.recorder import WARCRecorder, WARCRecorderParams
    from wpull.network.pool import ConnectionPool
    from wpull.protocol.http.client import Client
    cfg = case['config']
    tmp = keep_dir or tempfile.mkdtemp(prefix='vwarc')
    prefix = os.path.join(tmp, 'out')
    root_logger = logging.getLogger()
    saved_level = root_logger.level
    saved_handlers = list(root_logger.handlers)
    obs = {'config': cfg, 'exchanges': [], 'files': {}, 'error': None, 'seg_mode': 'overlap', 'overlaps': 0}
    rng = random.Random(case['seg_seed'])

    class DelayedPeer(netsim.HTTPScriptPeer):
        '''Delivers each response in pieces with idle loop turns in between, so that exchanges of other streams begin,
        finish and trigger rollovers while this one is in flight.'''
        async def _serve(self, conn, resp, idx):
            for piece in resp['pieces']:
                for _ in range(resp['delays'].pop() if resp['delays'] else 0):
                    await asyncio.sleep(0)
                if not await conn.feed_pieces([piece], self.settle):
                    break
            self.feed_done[idx] = True

    async def main():
        net = netsim.Net().install()
        try:
            table, peers = {}, []
            for k, stream in enumerate(case['streams']):
                responses = []
                for i, r in enumerate(stream):
                    pieces = pieces_for(rng, r, rng.choice(['whole', 'cut', 'random']))
                    responses.append({'pieces': pieces, 'delays': [rng.choice([0, 0, 1, 3, 10, 40]) for _ in pieces], 'then': 'keep',
                                      'url': 'http://s{}.test/r{}'.format(k, i)})
                peer = DelayedPeer(responses)
                table['s%d.test' % k] = '127.0.1.%d' % (k + 1)
                net.add_peer('127.0.1.%d' % (k + 1), 80, peer)
                peers.append((peer, responses))
            recorder = WARCRecorder(prefix, params=WARCRecorderParams(
                compress=cfg['compress'], extra_fields=cfg['extra_fields'], temp_dir=tmp, log=cfg['log'], appending=False,
                digests=cfg['digests'], cdx=cfg['cdx'], max_size=cfg['max_size']))
            client = Client(connection_pool=ConnectionPool(resolver=netsim.StaticResolver(table)))
            recorder.listen_to_http_client(client)
            in_flight = [0]

            async def run_stream(k):
                peer, responses = peers[k]
                outs = []
                for i, resp in enumerate(responses):
                    if in_flight[0]:
                        obs['overlaps'] += 1
                    in_flight[0] += 1
                    try:
                        outs.append(await httpdrive.one_exchange(client, resp['url'], case['streams'][k][i]['method'], peer, i))
                    finally:
                        in_flight[0] -= 1
                    if outs[-1]['error'] == 'STALL':
                        break
                return outs
            results = await asyncio.gather(*[run_stream(k) for k in range(len(peers))])
            recorder.close()
            try:
                client.close()
            except Exception:
                pass
            for k, outs in enumerate(results):
                peer, responses = peers[k]
                for i, r in enumerate(case['streams'][k]):
                    out = outs[i] if i < len(outs) else {'error': 'NOT-RUN'}
                    obs['exchanges'].append({
                        'url': responses[i]['url'], 'request_bytes': peer.requests[i][1] if i < len(peer.requests) else None,
                        'response_bytes': r['wire'][:len(r['wire']) - r['surplus']], 'error': out.get('error'),
                        'classes': r['classes'], 'method': r['method'], 'round': 0, 'expect_revisit': False})
        finally:
            net.uninstall()
    try:
        netsim.run(main(), timeout=120)
        for path in sorted(glob.glob(prefix + '*')) + sorted(glob.glob(os.path.join(tmp, 'done', '*'))):
            with open(path, 'rb') as f:
                data = f.read()
            name = os.path.basename(path)
            if name in obs['files']:
                # the same archive name in the working directory and in the --warc-move directory
                obs.setdefault('duplicate_names', []).append(name)
                if len(data) < len(obs['files'][name]):
                    continue
            obs['files'][name] = data
        obs['leftover_tmp'] = sorted(os.path.basename(p) for p in glob.glob(os.path.join(tmp, 'tmp-*')))
    finally:
        for h in list(root_logger.handlers):
            if h not in saved_handlers:
                root_logger.removeHandler(h)
        root_logger.setLevel(saved_level)
        if not keep_dir:
            shutil.rmtree(tmp, ignore_errors=True)
    return obs


class Visits(object):
    '''The crawler's own URL table (in memory) as the dedup source, as --warc-dedup fills it from a CDX file: the
    harness adds (url, record id, payload digest) visits and logs the recorder's queries.'''
    def __init__(self):
        from wpull.database.sqltable import SQLiteURLTable
        self.table = SQLiteURLTable(':memory:')
        self.visits = {}
        self.queries = []

    def add(self, url, digest, record_id):
        self.visits[(url, digest)] = record_id
        self.table.add_visits([(url, record_id, digest)])

    def get_revisit_id(self, url, payload_digest):
        self.queries.append((url, payload_digest))
        return self.table.get_revisit_id(url, payload_digest)


def run_case(case, keep_dir=None):
    if case.get('overlap'):
        return run_overlap_case(case, keep_dir)
    if case.get('redirects'):
        return run_redirect_case(case, keep_dir)
    if case.get('coprocessor'):
        return run_coprocessor_case(case, keep_dir)
    from wpull.warc.recorder import WARCRecorder, WARCRecorderParams
    cfg = case['config']
    rng = random.Random(case['seg_seed'])
    tmp = keep_dir or tempfile.mkdtemp(prefix='vwarc')
    prefix = os.path.join(tmp, 'out')
    root_logger = logging.getLogger()
    saved_level = root_logger.level
    saved_handlers = list(root_logger.handlers)
    obs = {'config': cfg, 'exchanges': [], 'files': {}, 'error': None, 'seg_mode': case['seg_mode']}
    try:
        seq = case['seq']
        rounds = [seq]
        rerun = cfg.get('rerun') and not cfg['appending'] and len(seq) > 1
        rerun_same = bool(rerun and cfg['max_size'])
        if rerun_same:
            # with size rollover the second (fresh) run repeats the first exchange for exchange, so that it produces the same
            # numbered files and every file of the first run is started over
            rounds = [seq, seq]
        elif (cfg['appending'] or rerun) and len(seq) > 1:
            h = len(seq) // 2
            rounds = [seq[:h], seq[h:]]
        visits = Visits() if cfg['dedup'] else None
        serial = 0
        for rnd_index, rnd in enumerate(rounds):
            move_dir = None
            if cfg.get('move'):
                move_dir = os.path.join(tmp, 'done')
                os.makedirs(move_dir, exist_ok=True)
            params = WARCRecorderParams(
                compress=cfg['compress'], extra_fields=cfg['extra_fields'], temp_dir=tmp, log=cfg['log'],
                appending=cfg['appending'], digests=cfg['digests'], cdx=cfg['cdx'], max_size=cfg['max_size'],
                url_table=visits, move_to=move_dir)
            recorder = WARCRecorder(prefix, params=params)
            responses = []
            if rerun_same:
                serial = 0
                rng = random.Random(case['seg_seed'] + 17)
            for i, r in enumerate(rnd):
                url = 'http://h.test/p{}/r{}?q={}'.format(0 if rerun_same else rnd_index, serial, i)
                if rng.random() < 0.1:
                    # very long URLs (around and beyond 1024 characters, where header writers start to fold lines)
                    total = rng.choice([1023, 1024, 1025, 1500, 2100, 4000])
                    url += '&pad=' + 'x' * max(1, total - len(url) - 5)
                serial += 1
                post_body = None
                if r['method'] == 'GET' and rng.random() < 0.15:
                    post_body = bytes(rng.choice(b'abc=&%20') for _ in range(rng.choice([0, 1, 17, 300, 5000, 9000])))
                # (a case that ends with a silent server runs under a real-time read timeout: its other exchanges are delivered
                # whole, a byte-wise delivery of a long line could take longer than that timeout)
                responses.append({'pieces': pieces_for(rng, r, 'whole' if case.get('stall_last_at') else case['seg_mode']), 'then': r['then'],
                                  'method': r['method'], 'url': url, 'post_body': post_body})
                if case.get('stall_last_at') and r is seq[-1] and rnd_index == len(rounds) - 1:
                    responses[-1]['pieces'] = [r['wire'][:case['stall_last_at']]]
                    responses[-1]['then'] = 'hang'
                if visits is not None and i % 2 == 1:
                    # pre-seed a visit so that this response is recorded as a revisit
                    from harness import refwarc
                    body_start = refwarc.http_payload_offset(r['wire'])
                    msg = r['wire'][:len(r['wire']) - r['surplus']]
                    digest = refwarc.b32sha1(msg[body_start:])[5:]
                    if i % 4 == 3:
                        # the earlier crawl archived this URL with another payload (the document has changed since):
                        # the response is not a duplicate and must be recorded whole
                        digest = refwarc.b32sha1(msg[body_start:] + b'(earlier version)')[5:]
                    visits.add(url, digest, '<urn:uuid:00000000-0000-0000-0000-%012d>' % serial)

            client_kwargs = None
            if cfg.get('ignore_length'):
                import functools
                from wpull.protocol.http.stream import Stream
                client_kwargs = {'stream_factory': functools.partial(Stream, ignore_length=True)}
            outcomes, peer, net = httpdrive.run_sequence(
                responses, recorder_setup=lambda client: recorder.listen_to_http_client(client), client_kwargs=client_kwargs,
                read_timeout=0.15 if any(x['then'] == 'hang' for x in responses) else None)
            if case.get('ftp') and rnd_index == len(rounds) - 1:
                obs['ftp'] = run_ftp_sessions(recorder, case['ftp'])
            try:
                recorder.close()
            except Exception as e:       # noqa: what the recorder raises at the end of a run is part of the observation
                obs['close_error'] = '{}: {}'.format(type(e).__name__, str(e)[:200])
            if rerun and rnd_index == 0:
                # everything this run wrote is replaced by the next (non-appending) run
                continue
            for i, (r, resp) in enumerate(zip(rnd, responses)):
                out = outcomes[i] if i < len(outcomes) else {'error': 'NOT-RUN'}
                req_bytes = peer.requests[i][1] if i < len(peer.requests) else None
                obs['exchanges'].append({
                    'url': resp['url'], 'request_bytes': req_bytes,
                    'response_bytes': r['wire'][:len(r['wire']) - r['surplus']],
                    'error': out.get('error'), 'classes': r['classes'], 'method': r['method'],
                    'round': rnd_index,
                    'expect_revisit': bool(visits is not None and i % 4 == 1),
                    'changed_since_archived': bool(visits is not None and i % 4 == 3),
                })
        for path in sorted(glob.glob(prefix + '*')) + sorted(glob.glob(os.path.join(tmp, 'done', '*'))):
            with open(path, 'rb') as f:
                data = f.read()
            name = os.path.basename(path)
            if name in obs['files']:
                # the same archive name in the working directory and in the --warc-move directory
                obs.setdefault('duplicate_names', []).append(name)
                if len(data) < len(obs['files'][name]):
                    continue
            obs['files'][name] = data
        obs['leftover_tmp'] = sorted(os.path.basename(p) for p in glob.glob(os.path.join(tmp, 'tmp-*')))
    finally:
        for h in list(root_logger.handlers):
            if h not in saved_handlers:
                root_logger.removeHandler(h)
        root_logger.setLevel(saved_level)
        if not keep_dir:
            shutil.rmtree(tmp, ignore_errors=True)
    return obs
