'''The listeners a crawl hangs on its HTTP / FTP clients: the WARC recorder and the download-progress printers.

Their code runs inside Session.start() / download(), so whatever they raise leaves those coroutines.  attach() wires
them to a bare client the way the application does (WARCRecorder.listen_to_*_client; the download-progress plug-in's
event wiring, with a terminal-like stream for the bar).'''
import io
import shutil
import tempfile


class TtyStream(io.StringIO):
    def isatty(self):
        return True


def attach(client, kinds, protocol):
    '''kinds: subset of {'warc', 'bar', 'dot'}.  Returns a teardown function.'''
    teardowns = []
    if 'warc' in kinds:
        from wpull.warc.recorder import WARCRecorder, WARCRecorderParams
        tmp = tempfile.mkdtemp(prefix='vlis')
        recorder = WARCRecorder(tmp + '/w', params=WARCRecorderParams(compress=False, temp_dir=tmp, log=False, cdx=True))
        if protocol == 'http':
            recorder.listen_to_http_client(client)
        else:
            recorder.listen_to_ftp_client(client)

        def close():
            try:
                recorder.close()
            finally:
                shutil.rmtree(tmp, ignore_errors=True)
        teardowns.append(close)
    progress = None
    if 'bar' in kinds:
        from wpull.pipeline.progress import BarProgress
        progress = BarProgress(stream=TtyStream())
    elif 'dot' in kinds:
        from wpull.pipeline.progress import DotProgress
        progress = DotProgress(stream=io.StringIO())
    if progress is not None:
        if protocol == 'http':
            from wpull.protocol.http.client import Client, Session

            def on_session(session):
                d = session.event_dispatcher
                d.add_listener(Session.Event.begin_request, progress.update_from_begin_request)
                d.add_listener(Session.Event.begin_response, progress.update_from_begin_response)
                d.add_listener(Session.Event.end_response, progress.update_from_end_response)
                d.add_listener(Session.Event.response_data, progress.update_with_data)
        else:
            from wpull.protocol.ftp.client import Client, Session

            def on_session(session):
                d = session.event_dispatcher
                d.add_listener(Session.Event.begin_control,
                               lambda request, connection_reused: progress.update_from_begin_request(request))
                d.add_listener(Session.Event.begin_transfer, progress.update_from_begin_response)
                d.add_listener(Session.Event.end_transfer, progress.update_from_end_response)
                d.add_listener(Session.Event.transfer_receive_data, progress.update_with_data)
        client.event_dispatcher.add_listener(Client.ClientEvent.new_session, on_session)

    def teardown():
        for t in teardowns:
            t()
    return teardown
