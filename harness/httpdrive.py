'''Drive the real wpull HTTP client (Client/Session/Stream/ConnectionPool/Connection) against
netsim.HTTPScriptPeer and collect what it returned per exchange.'''
import asyncio
import io

from harness import netsim

STALL_ITERATIONS = 400


def outcome_of_exception(e):
    return type(e).__name__


async def one_exchange(client, url, method, peer, resp_index, settle_iterations=STALL_ITERATIONS,
                       on_session=None, post_body=None, real_time_wait=None):
    from wpull.protocol.http.request import Request
    from wpull.body import Body
    out = {'error': None, 'phase': None}
    buf = io.BytesIO()

    async def go():
        request = Request(url, method=method)
        if post_body is not None:
            # what WebProcessorSession._add_post_data does for --post-data
            request.method = 'POST'
            request.fields['Content-Type'] = 'application/x-www-form-urlencoded'
            request.fields['Content-Length'] = str(len(post_body))
            request.body = Body(io.BytesIO(post_body))
        session = client.session()
        if on_session:
            on_session(session)
        with session:
            out['phase'] = 'start'
            response = await session.start(request)
            out['status'] = response.status_code
            out['reason'] = response.reason
            out['fields'] = [(n.lower(), v) for n, v in response.fields.get_all()]
            out['phase'] = 'download'
            await session.download(file=buf)
            out['fields_after'] = [(n.lower(), v) for n, v in response.fields.get_all()]
            out['phase'] = 'done'

    task = asyncio.ensure_future(go())
    idle = 0
    while not task.done():
        await asyncio.sleep(0)
        if peer.feed_done.get(resp_index):
            idle += 1
            if idle > settle_iterations:
                if real_time_wait:
                    # the peer went silent on purpose: the client's own (wall-clock) read timeout has to end the exchange
                    try:
                        await asyncio.wait_for(asyncio.shield(task), real_time_wait)
                    except BaseException:
                        pass
                break
    if not task.done():
        task.cancel()
        try:
            await task
        except BaseException:
            pass
        out['error'] = 'STALL'
    else:
        try:
            task.result()
        except asyncio.CancelledError:
            out['error'] = 'CancelledError'
        except Exception as e:
            out['error'] = outcome_of_exception(e)
            out['error_text'] = str(e)[:200]
            out['error_obj'] = e
    out['body'] = buf.getvalue()
    return out


def run_sequence(responses, host='h.test', port=80, scheme='http', recorder_setup=None, settle=12,
                 client_kwargs=None, per_exchange_hook=None, read_timeout=None, rate_limited=False):
    '''responses: list of dicts with 'pieces', 'then', 'method'.  Returns (outcomes, peer, net).'''
    from wpull.network.pool import ConnectionPool
    from wpull.protocol.http.client import Client

    async def main():
        net = netsim.Net().install()
        try:
            peer = netsim.HTTPScriptPeer(responses, settle=settle)
            net.add_peer('127.0.0.1', port, peer)
            if read_timeout or rate_limited:
                import functools
                from wpull.network.connection import Connection
                kw = {}
                if read_timeout:
                    kw['timeout'] = read_timeout
                if rate_limited:
                    # --limit-rate with a limit far above anything the simulation delivers: only the code path differs
                    from wpull.network.bandwidth import BandwidthLimiter
                    kw['bandwidth_limiter'] = BandwidthLimiter(10 ** 12)
                pool = ConnectionPool(resolver=netsim.StaticResolver(), connection_factory=functools.partial(Connection, **kw))
            else:
                pool = ConnectionPool(resolver=netsim.StaticResolver())
            client = Client(connection_pool=pool, **(client_kwargs or {}))
            teardown = None
            if recorder_setup:
                teardown = recorder_setup(client)
            outcomes = []
            for i, resp in enumerate(responses):
                url = resp.get('url') or '{}://{}{}/r{}'.format(
                    scheme, host, '' if port in (80, 443) else ':%d' % port, i)
                out = await one_exchange(client, url, resp.get('method', 'GET'), peer, i, post_body=resp.get('post_body'),
                                         real_time_wait=(read_timeout * 8 + 1) if read_timeout and resp.get('then') == 'hang' else None)
                out['url'] = url
                conn_ids = [c for c, idx in peer.served if idx == i]
                out['conn_id'] = conn_ids[0] if conn_ids else None
                if conn_ids:
                    out['buffered_after'] = net.connections[conn_ids[0]].buffered()
                outcomes.append(out)
                if per_exchange_hook:
                    per_exchange_hook(i, out, net, peer)
                if out['error'] == 'STALL':
                    break
            if teardown:
                teardown()
            try:
                client.close()
            except Exception:
                pass
            return outcomes, peer, net
        finally:
            net.uninstall()
    return netsim.run(main(), timeout=120)
