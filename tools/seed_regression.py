#!/usr/bin/env python3
'''Re-run every kept seeded change against the current checks: tools/seed_regression.py [jobs] [name-prefix]
For each seeded/<id>/ (property = the part of the directory name before the first '-'): scratch worktree of /repo HEAD,
demo on the unchanged tree, apply patch.diff (3-way fallback), demo with the patch, ./check <property> --tier quick with
WPULL_REPO pointing at the patched tree.  Results go to seeded/RESULTS.json and the table in seeded/README.md is
rewritten from them.  Nothing is written to /repo; evidence files are not touched (checks write them only for /repo).'''
import concurrent.futures
import json
import os
import subprocess
import sys

VERIF = os.path.dirname(os.path.dirname(os.path.abspath(__file__)))
SEEDED = os.path.join(VERIF, 'seeded')


def one(name):
    pid = name.split('-')[0]
    meta = {}
    try:
        meta = json.load(open(os.path.join(SEEDED, name, 'meta.json')))
    except (OSError, ValueError):
        pass
    ids = sorted(set([pid] + list((meta.get('check_now') or {}).keys())))
    env = dict(os.environ, SEED_SKIP_BASELINE='1')
    p = subprocess.run([os.path.join(VERIF, 'tools', 'try_seed.py'), os.path.join(SEEDED, name)] + ids, env=env,
                       stdout=subprocess.PIPE, stderr=subprocess.PIPE, timeout=7200)
    try:
        out = json.loads(p.stdout.decode())
    except ValueError:
        out = {'error': p.stderr.decode()[-500:]}
    out['name'] = name
    return out


def main():
    jobs = int(sys.argv[1]) if len(sys.argv) > 1 else 3
    prefix = sys.argv[2] if len(sys.argv) > 2 else ''
    names = sorted(n for n in os.listdir(SEEDED) if os.path.isdir(os.path.join(SEEDED, n)) and n.startswith(prefix))
    if os.environ.get('SEED_NAMES'):
        # an explicit selection (comma separated directory names); results are merged into RESULTS.json
        wanted = set(os.environ['SEED_NAMES'].split(','))
        names = [n for n in names if n in wanted]
        prefix = prefix or 'selection'
    results = {}
    path = os.path.join(SEEDED, 'RESULTS.json')
    if prefix and os.path.exists(path):
        results = json.load(open(path))
    with concurrent.futures.ThreadPoolExecutor(jobs) as ex:
        for out in ex.map(one, names):
            checks = out.get('checks') or {}
            results[out['name']] = {
                'demo_unchanged_exit': out.get('demo_unchanged_rc'), 'patch_applies': out.get('patch_applies'),
                'applied_3way': out.get('applied_3way', False), 'demo_patched_exit': out.get('demo_patched_rc'),
                'checks': {k: {'exit': v['rc'], 'keys': v['keys'][:4]} for k, v in checks.items()},
                'caught': any(v['rc'] == 1 for v in checks.values()), 'error': out.get('error') or out.get('apply_error')}
            print(out['name'], 'caught' if results[out['name']]['caught'] else 'NOT CAUGHT', results[out['name']]['error'] or '', flush=True)
    json.dump(results, open(path, 'w'), indent=1, sort_keys=True)
    missed = [n for n, r in results.items() if not r['caught']]
    print('%d changes, %d caught, not caught: %s' % (len(results), len(results) - len(missed), missed))
    sys.exit(1 if missed else 0)


if __name__ == '__main__':
    main()
