#!/bin/sh
# runs the repository's pinned baseline (hooks off) and compares with BASELINE.json stable_pass
# (the repository's tests leave tmp-wpull-*.pem files behind: give them a scratch TMPDIR that is removed afterwards)
scratch=$(mktemp -d /tmp/vpbaseXXXXXX)
cd /repo && TMPDIR=$scratch /venv/bin/python -m pytest -q -p no:cacheprovider --timeout=900 --continue-on-collection-errors --junitxml=/tmp/vp_baseline.xml >/tmp/vp_baseline.log 2>&1
/venv/bin/python - <<'PY'
import json, xml.etree.ElementTree as ET
base = set(json.load(open('/root/.vp/BASELINE.json'))['stable_pass'])
passed = set()
for tc in ET.parse('/tmp/vp_baseline.xml').getroot().iter('testcase'):
    if not list(tc):
        passed.add('{}::{}'.format(tc.get('classname'), tc.get('name')))
missing = sorted(base - passed)
print('baseline stable_pass', len(base), 'passing now', len(base & passed), 'missing', missing)
raise SystemExit(1 if missing else 0)
PY
rc=$?
rm -rf /tmp/vp_baseline.xml /tmp/vp_baseline.log "$scratch"
exit $rc
