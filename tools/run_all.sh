#!/bin/sh
# usage: tools/run_all.sh [quick|thorough]  -- runs every claimed check once, prints exit codes
tier=${1:-quick}
cd "$(dirname "$0")/.."
rc_all=0
for id in $(python3 -c "import json; print(' '.join(c['property_id'] for c in json.load(open('MANIFEST.json'))['checks']))"); do
  start=$(date +%s)
  ./check $id --tier $tier > /tmp/vp_runall_$id.log 2>&1
  rc=$?
  end=$(date +%s)
  echo "$id rc=$rc $((end-start))s $(grep -c '^KNOWN-FINDING' /tmp/vp_runall_$id.log) known $(grep -c '^VIOLATION' /tmp/vp_runall_$id.log) violations"
  [ $rc -ne 0 ] && rc_all=1
done
rm -f /tmp/vp_runall_*.log
exit $rc_all
