#!/usr/bin/env python3
'''Regenerates /verif/MANIFEST.json from the table below (only checks whose module exists are
claimed; the rest are listed under not_applicable as not built).'''
import json
import os

VERIF = os.path.dirname(os.path.dirname(os.path.abspath(__file__)))

CHECKS = {
    'C01': dict(level='exploration', technique='end-to-end crawl monitor: server request log + URL-table rows vs independent scope/BFS reference, over generated sites, options, real pipeline concurrency (set the way a plug-in sets it, up to 12 items in flight against 6 connections per host, keep-alive and closing servers) and response orders, with a no-progress (hang) watchdog; monitor B: FTP server command log of recursive FTP crawls (every file retrieved exactly once)',
                text='Real application crawls of generated site graphs against a logging loopback server; an offline checker decides exactly-once, fixpoint completeness and final states on the recorded trace. Sampling, not exhaustive.',
                note='compat runtime; harness server and reference scope predicate are trusted; loopback sockets'),
    'C02': dict(level='exploration', technique='differential runtime oracle: real filter stack built from real CLI options vs independent scope predicate; plus request-log monitor on crawls offering out-of-scope links (HTTP sites and recursive FTP trees)',
                text='Verdicts of the real DemuxURLFilter/FetchRule on boundary-directed (URL, record, option-set) triples are compared with an independent reference; crawls against allowed/forbidden hosts are monitored at the server log.',
                note='reference predicate written from doc/options.rst; compat runtime'),
    'C03': dict(level='fault_enumeration', technique='kill-point enumeration (every SQL statement/commit and every server request phase) with resume; request-log and database-row oracle',
                text='Every kill point of a workload is enumerated: the crawler is SIGKILLed there, the database copied, the same command rerun; an oracle over both request logs and the rows decides no-refetch / no-loss / completeness.',
                note='SQLite durability under process kill (not power loss); harness server; compat runtime'),
    'C04': dict(level='exploration', technique='wire-byte vs WARC-block comparison with an independent WARC reader under scripted in-memory peers and all segmentations',
                text='The real HTTP client + WARC recorder talk to scripted peers; an independent reader extracts record blocks which must equal the bytes sent/received, for generated header formats, framings, bodies and segmentations.',
                note='independent WARC reader; in-memory transport replaces only asyncio.open_connection'),
    'C05': dict(level='exploration', technique='strict independent WARC/gzip reader over files written by the real recorder across configurations (sequential, overlapping and redirect-following sessions, FTP sessions, coprocessor records, size rollover, --warc-move)',
                text='Every file written is parsed by a strict independent WARC/1.0 reader which recomputes lengths, digests, IDs and member boundaries.',
                note='independent reader; hashlib/zlib'),
    'C06': dict(level='fault_enumeration', technique='syscall-level fault/kill injection (LD_PRELOAD) at every write/close/unlink/open of an append; byte-exact archive oracle',
                text='All interposed file operations of an append are enumerated and each is failed (ENOSPC/EIO, once or sticky) or the process killed before/after/mid-write; the archive bytes and journal are compared with the pre-append snapshot.',
                note='fi.so interposer built with clang; operations performed through libc only'),
    'C07': dict(level='exploration', technique='CDX lines vs byte slices of the archives, parsed independently',
                text='Each CDX line is resolved against the named file and must slice exactly one member/record whose fields equal the line.',
                note='independent reader'),
    'C08': dict(level='exploration', technique='differential monitor: real HTTP stream/session vs independent RFC 7230 reference decoder over all segmentations',
                text='Well-formed and truncated response streams from a grammar are fed through every single cut / single-byte / random segmentation; results must equal the reference and be segmentation independent.',
                note='reference decoder; in-memory transport'),
    'C09': dict(level='exploration', technique='hostile-peer fuzzing with exception-class oracle at the session / robots / scraper entry points (with the WARC recorder and progress printers listening) and end-to-end HTTP and FTP crawls against hostile servers under many option sets',
                text='Grammar-aware mutations and random bytes are served to the real HTTP/FTP sessions, robots checker and scrapers; only the per-URL error kinds may escape.',
                note='in-memory transport; classification by exception type and innermost wpull function'),
    'C10': dict(level='exploration', technique='runtime oracle on URLInfo.parse outputs: idempotence, component stability, canonical-form predicates, variant-family unification over generated spellings',
                text='The real parser is run on >10^5 generated strings per quick run (10^7 thorough); an oracle checks the canonical-form clauses of the statement on every accepted input and that spelling families unify.',
                note='oracle predicates follow the statement; generators cover the host/escape/encoding classes of the quantifier'),
    'C11': dict(level='exploration', technique='totality monitor: exception-type and termination oracle on parse/join entry points and every accessor over hostile Unicode',
                text='Every generated string goes through URLInfo.parse, all documented accessors, parse_url_or_log, urljoin and urljoin_safe in watchdogged children; only ValueError may escape, RecursionError/timeouts are violations.',
                note='per-batch child processes with timeouts'),
    'C12': dict(level='exploration', technique='controlled event-loop scheduler (one handle per step, DFS + random schedules) with invariant monitor between steps and at quiescence; cancellation/connect-failure/remote-close fault branches; monitor B: the real HTTP / web / robots clients and generic pool clients over direct, proxy and dual-stack pools against hostile peers, with quiescence, probe-fetch and transport-closed oracles',
                text='The real ConnectionPool runs on a deterministic scheduler that enumerates resume orders; holder sets, per-host bounds, lost wake-ups and leaks are asserted between steps and at quiescence.',
                note='scheduler replaces only the event loop run-once policy; in-memory transports'),
    'C13': dict(level='exploration', technique='controlled event-loop scheduler with task/source event log, hooked start of the final wait of process(), and quiescence (hang) detection; stop/concurrency-change/exception branches; monitor B: the real Application over a pipeline series configured like the real Builder, with stop requests, pauses and interrupt signals',
                text='The real Pipeline runs with instrumented source and tasks on the deterministic scheduler; an oracle over the (task,item,start/end) log decides order/at-most-once/exactly-once and bounded completion.',
                note='scheduler; instrumented ItemSource/ItemTask are harness code'),
    'C14': dict(level='exploration', technique='model-based runtime monitor: every table call compared with a dict reference after each step of generated histories, incl. reopen',
                text='Generated operation histories run against the real SQLiteURLTable (memory and disk, direct and wrapped); results and full table contents must equal a dict model after every step.',
                note='reference model; SQLAlchemy 2 through compat select shim'),
    'C15': dict(level='exploration', technique='path-containment oracle on PathNamer / writer-session outputs for generated URLs x naming options x Content-Disposition',
                text='Real PathNamer and writer sessions built from real CLI options name files for hostile URLs and headers; every component below the prefix is checked.',
                note='oracle from the statement'),
    'C16': dict(level='exploration', technique='strict request parser over client bytes captured from the real WebSession through scripted redirect/cookie/auth peers (direct, relaying / TLS / tunnelling / authenticating proxies); monitor B: per-origin secret markers searched in every raw request of whole crawls; monitor C: requests relayed by the proxy server from a pipelining client',
                text='Every request the real client writes to the fake connection is parsed strictly and compared with the hop URL; credential/cookie provenance is tracked per host.',
                note='in-memory transport'),
    'C17': dict(level='exploration', technique='control-connection byte monitor and reply-segmentation differential (incl. lines around the 64 KiB line limit) under scripted FTP peers',
                text='Every write on the FTP control connection is matched against the one-line grammar for URLs with every byte value encoded; replies are re-read under all segmentations; transfer completion ordering is asserted.',
                note='in-memory transport; reference reply assembler'),
    'C18': dict(level='exploration', technique='request counting per visit/URL against limits under redirect loops, endless chains and perpetual failures; bounded-progress (quiescence) check',
                text='Scripted peers answer with cycles/chains/failures; requests per visit and per URL are counted against max-redirect and tries; crawls must terminate.',
                note='in-memory transport and loopback crawls'),
    'C19': dict(level='exploration', technique='differential decoder monitor: every split of encoded bodies vs zlib one-shot; corrupt/truncated inputs must raise',
                text='The real decompressor classes and Stream.read_body are fed all single cuts, all-1-byte and random splits of gzip/zlib/raw deflate bodies; output must equal one-shot decoding; corrupt/truncated data must raise.',
                note='zlib one-shot as reference'),
    'C20': dict(level='exploration', technique='end-to-end crawl monitor with robots on: server log + client session-event order vs independent robots.txt matcher; crawls over 65-250 origins (each rule file requested once)',
                text='Crawls with generated robots.txt files (sizes up to 20 KiB, several groups, redirects, 404/5xx), several origins and concurrency; request log checked against an independent matcher and ordering rules.',
                note='reference matcher restricted to the consensus fragment'),
}


def module_for(pid):
    d = os.path.join(VERIF, 'checks')
    for name in sorted(os.listdir(d)):
        if name.lower().startswith(pid.lower() + '_') and name.endswith('.py'):
            return name[:-3]
    return None


def main():
    checks = []
    na = []
    for pid in sorted(CHECKS):
        meta = CHECKS[pid]
        if module_for(pid) and not meta.get('disabled'):
            checks.append({
                'property_id': pid,
                'quick_cmd': './check {} --tier quick'.format(pid),
                'thorough_cmd': './check {} --tier thorough'.format(pid),
                'evidence_file': 'evidence/{}.json'.format(pid),
                'replay_cmd_template': './check {} --replay {{path}}'.format(pid),
                'engine': 'runtime-monitor',
                'level_claimed': {'category': meta['level'], 'text': meta['text'],
                                  'design_ref': 'DESIGN.md section 4, ' + pid},
                'level_note': meta['note'],
                'technique': meta['technique'],
            })
        else:
            na.append({'property_id': pid,
                       'reason': meta.get('disabled') or 'monitor not built yet in this round (planned: ' + meta['technique'] + ')'})
    manifest = {
        'version': 1,
        'setup_cmd': 'sh tools/setup.sh',
        'hooks': {
            'guard': 'WPULL_VERIF',
            'enable': 'no instrumentation is compiled into /repo; checks observe from outside (compat runtime, event listeners, LD_PRELOAD); WPULL_VERIF=1 is exported by ./check for forward compatibility',
            'baseline_off_cmd': 'cd /repo && /venv/bin/python -m pytest -ra -q -p no:cacheprovider --timeout=900 --continue-on-collection-errors',
            'source_commits': [],
            'add_only': True,
        },
        'engines': [{'name': 'runtime-monitor', 'path': 'check',
                     'serves_properties': [c['property_id'] for c in checks],
                     'kind_free_text': 'runtime monitoring: real wpull code driven by generated/hostile workloads under a compatibility runtime, controlled scheduler, scripted peers and syscall fault injection; oracles over observed events'}],
        'checks': checks,
        'not_applicable': na,
        'notes': 'Genuine defects found are either repaired by fix: commits in /repo or listed in known_findings.json (see DESIGN.md section 5).',
    }
    with open(os.path.join(VERIF, 'MANIFEST.json'), 'w') as f:
        json.dump(manifest, f, indent=1)
    print('claimed', [c['property_id'] for c in checks])


if __name__ == '__main__':
    main()
