#!/bin/sh
# Offline setup: build the syscall fault injector if its source exists; self-test the compat runtime.
here=$(cd "$(dirname "$0")/.." && pwd)
cd "$here"
if [ -f harness/fi/fi.c ]; then
  (cd harness/fi && clang -O1 -shared -fPIC -o fi.so fi.c -ldl) || echo "fi.so build failed (checks fall back / report inconclusive)"
fi
PYTHONPATH="$here" /venv/bin/python -c "import compat; ok, f = compat.selftest(); print('compat selftest: imported', ok, 'failed', sorted(f))"
exit 0
