#!/usr/bin/env python3
'''Evaluate one seeded change: tools/try_seed.py <seed_dir> <property id> [more ids...]
seed_dir holds patch.diff and demo.py.  Uses a scratch worktree of /repo (removed afterwards):
 1. demo passes on the unchanged tree   2. patch applies   3. baseline 111 still pass
 4. demo fails with the patch           5. ./check <id> (quick) reports a VIOLATION against the patched tree
'''
import json
import os
import re
import subprocess
import sys
import tempfile
import xml.etree.ElementTree as ET

VERIF = os.path.dirname(os.path.dirname(os.path.abspath(__file__)))


def sh(cmd, cwd=None, env=None, timeout=3600):
    p = subprocess.run(cmd, shell=True, cwd=cwd, env=env, stdout=subprocess.PIPE, stderr=subprocess.STDOUT, timeout=timeout)
    return p.returncode, p.stdout.decode('utf-8', 'replace')


def baseline(tree):
    xml = tempfile.mktemp(suffix='.xml')
    scratch = tempfile.mkdtemp(prefix='vpbase')     # the repository's tests leave tmp-wpull-*.pem files behind
    sh('/venv/bin/python -m pytest -q -p no:cacheprovider --timeout=900 --continue-on-collection-errors --junitxml=%s' % xml, cwd=tree,
       env=dict(os.environ, TMPDIR=scratch))
    import shutil
    shutil.rmtree(scratch, ignore_errors=True)
    base = set(json.load(open('/root/.vp/BASELINE.json'))['stable_pass'])
    passed = set()
    for tc in ET.parse(xml).getroot().iter('testcase'):
        if not list(tc):
            passed.add('{}::{}'.format(tc.get('classname'), tc.get('name')))
    os.unlink(xml)
    return sorted(base - passed)


def main():
    seed = os.path.abspath(sys.argv[1])
    ids = sys.argv[2:]
    tier = os.environ.get('SEED_TIER', 'quick')
    tree = tempfile.mkdtemp(prefix='tryseed')
    os.rmdir(tree)
    out = {'seed': seed}
    rc, o = sh('git -C /repo worktree add -q --detach %s HEAD' % tree)
    try:
        demo = os.path.join(seed, 'demo.py')
        rc, o = sh('/venv/bin/python %s' % demo, cwd=tree, timeout=600)
        out['demo_unchanged_rc'] = rc
        rc, o = sh('git apply %s' % os.path.join(seed, 'patch.diff'), cwd=tree)
        if rc != 0:
            # the tree may have moved on since the patch was written: try a 3-way merge
            rc, o = sh('git apply -3 %s' % os.path.join(seed, 'patch.diff'), cwd=tree)
            out['applied_3way'] = rc == 0
        out['patch_applies'] = rc == 0
        if rc != 0:
            out['apply_error'] = o[-300:]
        else:
            if os.environ.get('SEED_SKIP_BASELINE'):
                missing = None       # (regression runs: the baseline was confirmed when the change was accepted)
            else:
                missing = baseline(tree)
            out['baseline_missing'] = missing
            rc, o = sh('/venv/bin/python %s' % demo, cwd=tree, timeout=600)
            out['demo_patched_rc'] = rc
            out['demo_patched_tail'] = o[-300:]
            env = dict(os.environ, WPULL_REPO=tree)
            out['checks'] = {}
            for pid in ids:
                rc, o = sh('./check %s --tier %s' % (pid, tier), cwd=VERIF, env=env, timeout=7200)
                keys = re.findall(r'witness\[([^\]]+)\]', o)
                out['checks'][pid] = {'rc': rc, 'violation_lines': o.count('\nVIOLATION') + o.startswith('VIOLATION'), 'keys': keys[:8]}
    finally:
        sh('git -C /repo worktree remove --force %s' % tree)
    # restore evidence written against the patched tree
    print(json.dumps(out, indent=1))


if __name__ == '__main__':
    main()
