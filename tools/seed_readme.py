#!/usr/bin/env python3
'''Rewrite seeded/README.md from seeded/*/meta.json and seeded/RESULTS.json (tools/seed_regression.py).'''
import json
import os

VERIF = os.path.dirname(os.path.dirname(os.path.abspath(__file__)))
SEEDED = os.path.join(VERIF, 'seeded')


def main():
    results = {}
    try:
        results = json.load(open(os.path.join(SEEDED, 'RESULTS.json')))
    except (OSError, ValueError):
        pass
    names = sorted(n for n in os.listdir(SEEDED) if os.path.isdir(os.path.join(SEEDED, n)))
    out = ['# Independently seeded changes and which check reports them', '',
           'Each directory `<property>-<k>/` (round 1) or `<property>-r2-<k>/` (round 2) holds `patch.diff` (against /repo HEAD at the '
           'time; `tools/try_seed.py` falls back to a 3-way apply), `demo.py` (exits 0 without / non-zero with the change), the '
           'author\'s `notes.md` and `meta.json`. All %d changes keep the 111-test baseline green. Apply with '
           '`git -C /repo apply seeded/<id>/patch.diff`, run `./check <property>`, undo with `git -C /repo checkout -- .` (or use '
           '`tools/try_seed.py seeded/<id> <property>`, which works on a scratch worktree). `tools/seed_regression.py` re-runs all of '
           'them against the current checks and writes `RESULTS.json`, from which the two right-hand columns below are taken.' % len(names), '',
           '| change | check as it was when the change arrived | current quick check (exit, first keys) | note |', '|---|---|---|---|']
    for n in names:
        meta = json.load(open(os.path.join(SEEDED, n, 'meta.json')))
        was = meta.get('check_as_it_was')
        hist = meta.get('history', '')
        if was is None:
            was_txt = 'caught' if hist.startswith('caught by the check as it was') else 'missed or inconclusive; strengthened'
        else:
            was_txt = {1: 'caught', 0: 'missed', 2: 'inconclusive'}.get(was['exit'], str(was['exit']))
        r = results.get(n)
        if r:
            now = '; '.join('%s: %s %s' % (c, v['exit'], ', '.join('`%s`' % k for k in v['keys'][:2])) for c, v in sorted(r['checks'].items()))
            if r.get('applied_3way'):
                now += ' (3-way apply)'
            if r.get('error'):
                now += ' ERROR ' + str(r['error'])[:80]
        else:
            now = '(not re-run)'
        note = hist if not hist.startswith('caught by the check as it was') else ''
        out.append('| %s | %s | %s | %s |' % (n, was_txt, now, note.replace('|', '/')))
    open(os.path.join(SEEDED, 'README.md'), 'w').write('\n'.join(out) + '\n')


if __name__ == '__main__':
    main()
