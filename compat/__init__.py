'''Compatibility runtime: lets the unmodified wpull sources under /repo run on the
pinned interpreter (CPython 3.12, SQLAlchemy 2, tornado 6, html5lib 1.1).

It only restores *removed standard-library / third-party names* that the code base
was written against.  No wpull function is replaced; wpull modules are compiled from
the working tree at import time (never from __pycache__).

Use:  import compat; compat.install()   (before importing wpull)
'''
import asyncio
import collections
import collections.abc
import functools
import importlib.abc
import importlib.machinery
import importlib.util
import inspect
import os
import ssl
import sys
import types
import warnings

REPO = os.environ.get('WPULL_REPO', '/repo')
_installed = False


# --------------------------------------------------------------------------- collections
def _fix_collections():
    for name in ('Mapping', 'MutableMapping', 'Sequence', 'MutableSequence', 'Set',
                 'MutableSet', 'Iterable', 'Iterator', 'Callable', 'Hashable',
                 'Sized', 'Container', 'KeysView', 'ValuesView', 'ItemsView',
                 'Awaitable', 'Coroutine', 'Generator'):
        if not hasattr(collections, name):
            setattr(collections, name, getattr(collections.abc, name))


# --------------------------------------------------------------------------- asyncio
def _coroutine(func):
    '''asyncio.coroutine as it behaved in 3.4 - 3.10 (non debug mode).'''
    if inspect.iscoroutinefunction(func):
        return func
    if inspect.isgeneratorfunction(func):
        coro = func
    else:
        @functools.wraps(func)
        def coro(*args, **kw):
            res = func(*args, **kw)
            if asyncio.isfuture(res) or inspect.isgenerator(res):
                res = yield from res
            else:
                try:
                    await_meth = res.__await__
                except AttributeError:
                    pass
                else:
                    if isinstance(res, collections.abc.Awaitable):
                        res = yield from await_meth()
            return res
    coro = types.coroutine(coro)
    try:
        coro._is_coroutine = asyncio.coroutines._is_coroutine
    except AttributeError:
        pass
    return coro


def _is_gen_coroutine(obj):
    return isinstance(obj, types.GeneratorType) and bool(
        obj.gi_code.co_flags & inspect.CO_ITERABLE_COROUTINE)


async def _wrap_gen(gen):
    return await gen


def _fix_asyncio():
    if not hasattr(asyncio, 'coroutine'):
        asyncio.coroutine = _coroutine

    from asyncio import base_events
    if not getattr(base_events.BaseEventLoop.create_task, '_compat', False):
        orig_create_task = base_events.BaseEventLoop.create_task

        def create_task(self, coro, **kw):
            if _is_gen_coroutine(coro):
                coro = _wrap_gen(coro)
            return orig_create_task(self, coro, **kw)
        create_task._compat = True
        create_task._orig = orig_create_task
        base_events.BaseEventLoop.create_task = create_task

    # iscoroutine() accepted generator based coroutines up to 3.11
    orig_iscoroutine = asyncio.coroutines.iscoroutine
    if not getattr(orig_iscoroutine, '_compat', False):
        def iscoroutine(obj):
            return orig_iscoroutine(obj) or _is_gen_coroutine(obj)
        iscoroutine._compat = True
        asyncio.iscoroutine = iscoroutine

    # ensure_future(generator-based coroutine)
    orig_ensure_future = asyncio.ensure_future
    if not getattr(orig_ensure_future, '_compat', False):
        def ensure_future(coro_or_future, *, loop=None):
            if _is_gen_coroutine(coro_or_future):
                coro_or_future = _wrap_gen(coro_or_future)
            return orig_ensure_future(coro_or_future, loop=loop)
        ensure_future._compat = True
        asyncio.ensure_future = ensure_future
        asyncio.tasks.ensure_future = ensure_future

    # "with (yield from lock):"  (removed in 3.9)
    class _ContextManager:
        def __init__(self, lock):
            self._lock = lock

        def __enter__(self):
            return None

        def __exit__(self, *args):
            try:
                self._lock.release()
            finally:
                self._lock = None

    def _lock_iter(self):
        yield from self.acquire().__await__()
        return _ContextManager(self)

    for cls in (asyncio.Lock, asyncio.Condition, asyncio.Semaphore):
        if '__iter__' not in cls.__dict__:
            cls.__iter__ = _lock_iter

    # asyncio.wait / wait_for / as_completed accepted bare coroutines
    orig_wait = asyncio.wait
    if not getattr(orig_wait, '_compat', False):
        async def wait(fs, *, timeout=None, return_when=asyncio.ALL_COMPLETED):
            fs = [asyncio.ensure_future(f) if (_is_gen_coroutine(f) or inspect.iscoroutine(f)) else f
                  for f in fs]
            return await orig_wait(fs, timeout=timeout, return_when=return_when)
        wait._compat = True
        asyncio.wait = wait

    orig_wait_for = asyncio.wait_for
    if not getattr(orig_wait_for, '_compat', False):
        async def wait_for(fut, timeout):
            if _is_gen_coroutine(fut):
                fut = _wrap_gen(fut)
            return await orig_wait_for(fut, timeout)
        wait_for._compat = True
        asyncio.wait_for = wait_for

    orig_as_completed = asyncio.as_completed
    if not getattr(orig_as_completed, '_compat', False):
        def as_completed(fs, *, timeout=None):
            fs = [_wrap_gen(f) if _is_gen_coroutine(f) else f for f in fs]
            return orig_as_completed(fs, timeout=timeout)
        as_completed._compat = True
        asyncio.as_completed = as_completed


# --------------------------------------------------------------------------- third party
def _fix_tornado():
    try:
        import tornado.netutil
    except ImportError:
        return
    if not hasattr(tornado.netutil, 'SSLCertificateError'):
        tornado.netutil.SSLCertificateError = ssl.CertificateError


def _fix_imp():
    if 'imp' in sys.modules:
        return
    try:
        import imp  # noqa
        return
    except ImportError:
        pass
    mod = types.ModuleType('imp')

    def load_source(name, path):
        spec = importlib.util.spec_from_file_location(name, path)
        module = importlib.util.module_from_spec(spec)
        sys.modules[name] = module
        spec.loader.exec_module(module)
        return module
    mod.load_source = load_source
    mod.PY_SOURCE = 1
    mod.PY_COMPILED = 2
    mod.C_EXTENSION = 3
    mod.PKG_DIRECTORY = 5

    def load_module(name, file, pathname, description):
        # source modules and packages only (what yapsy's plugin manager needs)
        if description[2] == mod.PKG_DIRECTORY:
            pathname = os.path.join(pathname, '__init__.py')
        import importlib.machinery
        loader = importlib.machinery.SourceFileLoader(name, pathname)
        spec = importlib.util.spec_from_file_location(name, pathname, loader=loader)
        module = importlib.util.module_from_spec(spec)
        sys.modules[name] = module
        spec.loader.exec_module(module)
        return module
    mod.load_module = load_module

    def acquire_lock():
        pass
    mod.acquire_lock = acquire_lock
    mod.release_lock = acquire_lock
    sys.modules['imp'] = mod


def _fix_html5lib():
    try:
        import html5lib
        import html5lib._tokenizer as _tok
    except ImportError:
        return
    if 'html5lib.tokenizer' in sys.modules:
        return
    mod = types.ModuleType('html5lib.tokenizer')

    class HTMLTokenizer(_tok.HTMLTokenizer):
        def __init__(self, stream, encoding=None, useChardet=True, parseMeta=True,
                     **kwargs):
            if encoding is not None:
                kwargs['override_encoding'] = encoding
            kwargs['useChardet'] = useChardet
            super().__init__(stream, **kwargs)

    mod.HTMLTokenizer = HTMLTokenizer
    for name in dir(_tok):
        if not hasattr(mod, name):
            setattr(mod, name, getattr(_tok, name))
    sys.modules['html5lib.tokenizer'] = mod
    html5lib.tokenizer = mod


def _fix_sqlalchemy():
    try:
        import sqlalchemy
        import sqlalchemy.sql.expression as expr
    except ImportError:
        return
    orig = sqlalchemy.select
    if getattr(orig, '_compat', False):
        return

    def select(*args, **kw):
        if len(args) == 1 and isinstance(args[0], (list, tuple)):
            args = tuple(args[0])
        return orig(*args, **kw)
    select._compat = True
    sqlalchemy.select = select
    expr.select = select
    try:
        import sqlalchemy.sql as sql
        sql.select = select
    except Exception:
        pass


def _fix_ipaddress():
    '''ipaddress.IPv6Address accepts scope ids ("fe80::1%eth0", any text after %) since Python 3.9.  wpull relies on
    it to reject such host text, as it did on the interpreters the code targets; restore that.'''
    import ipaddress
    orig = ipaddress.IPv6Address
    if getattr(orig, '_compat', False):
        return

    class IPv6Address(orig):
        _compat = True
        __slots__ = ()

        def __init__(self, address):
            if isinstance(address, str) and '%' in address:
                raise ipaddress.AddressValueError('Scope id not supported: {!r}'.format(address))
            super().__init__(address)
    IPv6Address.__name__ = 'IPv6Address'
    IPv6Address.__qualname__ = 'IPv6Address'
    ipaddress.IPv6Address = IPv6Address


# --------------------------------------------------------------------------- loader
class _WpullLoader(importlib.abc.SourceLoader):
    def __init__(self, fullname, path):
        self.fullname = fullname
        self.path = path

    def get_filename(self, fullname):
        return self.path

    def get_data(self, path):
        with open(path, 'rb') as f:
            data = f.read()
        if path.endswith('.py') and b'asyncio.async(' in data:
            data = data.replace(b'asyncio.async(', b'asyncio.ensure_future(')
        return data

    # never use bytecode caches: the working tree is what runs
    def path_stats(self, path):
        raise OSError

    def set_data(self, path, data):
        pass

    def get_code(self, fullname):
        source = self.get_data(self.path)
        with warnings.catch_warnings():
            warnings.simplefilter('ignore')
            return compile(source, self.path, 'exec', dont_inherit=True)


class _WpullFinder(importlib.abc.MetaPathFinder):
    def find_spec(self, fullname, path, target=None):
        if fullname != 'wpull' and not fullname.startswith('wpull.'):
            return None
        parts = fullname.split('.')
        base = os.path.join(REPO, *parts)
        if os.path.isdir(base) and os.path.isfile(os.path.join(base, '__init__.py')):
            filename = os.path.join(base, '__init__.py')
            return importlib.util.spec_from_file_location(
                fullname, filename, loader=_WpullLoader(fullname, filename),
                submodule_search_locations=[base])
        filename = base + '.py'
        if os.path.isfile(filename):
            return importlib.util.spec_from_file_location(
                fullname, filename, loader=_WpullLoader(fullname, filename))
        return None


def _fix_stream_reader():
    '''StreamReader.read / readline / readexactly were generator based coroutines on the interpreters wpull targets, so
    its plain generators may "yield from" them (the proxy server's session relays a request body that way).  Native
    coroutine methods cannot be delegated to from a plain generator; wrap them as generator based ones again.'''
    import types

    def generator_based(name):
        original = getattr(asyncio.StreamReader, name)
        if getattr(original, '_compat', False):
            return

        @types.coroutine
        def method(self, *args, **kwargs):
            return (yield from original(self, *args, **kwargs).__await__())
        method._compat = True
        method.__name__ = name
        marker = getattr(asyncio.coroutines, '_is_coroutine', None)
        if marker is not None:
            method._is_coroutine = marker
        setattr(asyncio.StreamReader, name, method)
    for name in ('read', 'readline', 'readexactly', 'readuntil'):
        generator_based(name)


def install():
    global _installed
    if _installed:
        return
    _installed = True
    sys.dont_write_bytecode = True
    warnings.filterwarnings('ignore', category=DeprecationWarning)
    warnings.filterwarnings('ignore', category=SyntaxWarning)
    warnings.filterwarnings('ignore', category=ResourceWarning)
    _fix_collections()
    _fix_asyncio()
    _fix_stream_reader()
    _fix_tornado()
    _fix_imp()
    _fix_html5lib()
    _fix_sqlalchemy()
    _fix_ipaddress()
    sys.meta_path.insert(0, _WpullFinder())
    for name in [n for n in sys.modules if n == 'wpull' or n.startswith('wpull.')]:
        del sys.modules[name]
    if os.environ.get('VERIF_SCRATCH_ROOT') and os.environ.get('VERIF_WRITE_GUARD', '1') != '0':
        # worker / child process of a check: Python-level writes are confined to the scratch area of the run
        from compat import guard
        guard.install([os.environ['VERIF_SCRATCH_ROOT']])


def selftest(modules=None):
    '''Import the given wpull modules (default: all non-test ones); return
    (ok_count, {module: error}).'''
    import importlib
    import pkgutil
    install()
    failures = {}
    ok = 0
    if modules is None:
        import wpull
        modules = []
        for m in pkgutil.walk_packages(wpull.__path__, 'wpull.', onerror=lambda n: None):
            if m.name.endswith('_test') or '.testing' in m.name or 'test_' in m.name:
                continue
            modules.append(m.name)
    for name in modules:
        try:
            importlib.import_module(name)
            ok += 1
        except BaseException as e:  # noqa
            failures[name] = '{}: {}'.format(type(e).__name__, e)
    return ok, failures


if __name__ == '__main__':
    ok, failures = selftest()
    print('imported', ok, 'failed', len(failures))
    for k, v in failures.items():
        print(' ', k, v)
