'''Write guard for worker processes.

The checks run the real crawler - and deliberately broken variants of it - as root.  A variant that drops the
download-directory prefix would create files in / or /etc.  This guard (installed by par workers and by the child
processes they start) lets Python-level file creation, modification and removal succeed only below the scratch
area of the run; everything else raises PermissionError and is recorded, so that a check can also report the
attempt itself.  Reads are never restricted.  Writes made by C code (SQLite) are not covered; the checks keep
those files in the scratch area themselves.
'''
import builtins
import io
import os

ATTEMPTS = []          # paths of blocked attempts (most recent last)
_roots = []
_installed = False
_ALWAYS = ('/dev/null', '/dev/tty', '/dev/shm', '/proc/self')


def _norm(path):
    try:
        p = os.fsdecode(path)
    except Exception:
        return None
    if '\x00' in p:
        return None
    try:
        return os.path.realpath(os.path.abspath(p))
    except Exception:
        return None


def allowed(path):
    if isinstance(path, int):
        return True
    p = _norm(path)
    if p is None:
        return True            # the operating system rejects such a name anyway
    for r in _roots:
        if p == r or p.startswith(r + os.sep):
            return True
    return any(p == a or p.startswith(a + os.sep) for a in _ALWAYS)


def _check(path, what):
    if not allowed(path):
        ATTEMPTS.append(_norm(path))
        del ATTEMPTS[:-200]
        raise PermissionError(13, 'verification write guard: {} outside the scratch area'.format(what), os.fsdecode(path))


def pop_attempts():
    out = list(ATTEMPTS)
    del ATTEMPTS[:]
    return out


def add_root(path):
    p = _norm(path)
    if p and p not in _roots:
        _roots.append(p)


def install(roots):
    global _installed
    for r in roots:
        add_root(r)
    if _installed:
        return
    _installed = True
    real_open = builtins.open

    def guarded_open(file, mode='r', *args, **kwargs):
        if not isinstance(file, int) and isinstance(mode, str) and any(c in mode for c in 'wax+'):
            _check(file, 'open for writing')
        return real_open(file, mode, *args, **kwargs)
    builtins.open = guarded_open
    io.open = guarded_open
    real_os_open = os.open

    def guarded_os_open(path, flags, *args, **kwargs):
        if kwargs.get('dir_fd') is None and flags & (os.O_WRONLY | os.O_RDWR | os.O_CREAT | os.O_TRUNC | os.O_APPEND):
            _check(path, 'os.open for writing')
        return real_os_open(path, flags, *args, **kwargs)
    os.open = guarded_os_open

    def wrap1(name):
        real = getattr(os, name, None)
        if real is None:
            return

        def guarded(path, *args, **kwargs):
            if kwargs.get('dir_fd') is None:       # (names relative to a directory descriptor: shutil.rmtree of scratch dirs)
                _check(path, 'os.' + name)
            return real(path, *args, **kwargs)
        guarded.__name__ = name
        setattr(os, name, guarded)

    def wrap2(name):
        real = getattr(os, name, None)
        if real is None:
            return

        def guarded(src, dst, *args, **kwargs):
            if kwargs.get('src_dir_fd') is not None or kwargs.get('dst_dir_fd') is not None or kwargs.get('dir_fd') is not None:
                return real(src, dst, *args, **kwargs)
            _check(dst, 'os.' + name)
            if name in ('rename', 'replace', 'renames'):
                _check(src, 'os.' + name)
            return real(src, dst, *args, **kwargs)
        guarded.__name__ = name
        setattr(os, name, guarded)
    for n in ('mkdir', 'makedirs', 'remove', 'unlink', 'rmdir', 'removedirs', 'truncate', 'chmod', 'chown', 'utime', 'mkfifo'):
        wrap1(n)
    for n in ('rename', 'replace', 'renames', 'symlink', 'link'):
        wrap2(n)
