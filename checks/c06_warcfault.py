'''C06 - a failed or interrupted WARC append never damages earlier records.

Fault enumeration: a counting run lists every interposed file operation (open, write, close,
ftruncate, unlink, ...) that one WARCRecorder.write_record() performs on the archive and its
journal; then every operation index k is combined with every mode
  err(ENOSPC) err(EIO) sticky(ENOSPC) kill_before kill_after kill_torn
in a fresh child process under the LD_PRELOAD injector (harness/fi/fi.so).
'''
import glob
import json
import os
import shutil
import subprocess
import sys
import tempfile

from harness import common, par, refwarc

FI_DIR = os.path.join(common.VERIF, 'harness', 'fi')
FI_SO = os.path.join(FI_DIR, 'fi.so')
MODES = [('err', 28), ('err', 5), ('err', 13), ('err', 1), ('sticky', 28), ('short', 28), ('kill_before', 0), ('kill_after', 0), ('kill_torn', 0)]


def ensure_fi():
    if os.path.exists(FI_SO) and os.path.getmtime(FI_SO) >= os.path.getmtime(os.path.join(FI_DIR, 'fi.c')):
        return True
    try:
        subprocess.run(['clang', '-O1', '-shared', '-fPIC', '-o', FI_SO, os.path.join(FI_DIR, 'fi.c'), '-ldl'],
                       check=True, cwd=FI_DIR, timeout=120)
        return True
    except Exception as e:
        print('cannot build fi.so:', e)
        return False


# ------------------------------------------------------------------------------------------ child
def child_main(argv):
    '''argv: workdir compress(0/1) earlier_records record_size scenario'''
    import compat
    compat.install()
    import io
    from wpull.warc.recorder import WARCRecorder, WARCRecorderParams
    from wpull.warc.format import WARCRecord
    workdir, compress, earlier, size, scenario = argv[0], argv[1] == '1', int(argv[2]), int(argv[3]), argv[4]
    # 'plain:bracket' = scenario 'plain' with an archive prefix that contains glob metacharacters (--warc-file 'arch[1]')
    scenario, _, flavour = scenario.partition(':')
    prefix = os.path.join(workdir, 'arch[1]' if flavour == 'bracket' else 'arch')
    result_path = os.path.join(workdir, 'result.json')
    if scenario in ('restart', 'restart-fresh'):
        # a new run on the same prefix: must refuse while a journal exists ('restart-fresh': the same command again without
        # --warc-append, which would otherwise start the archive over)
        try:
            WARCRecorder(prefix, params=WARCRecorderParams(compress=compress, log=False, appending=(scenario == 'restart'),
                                                           temp_dir=workdir))
            out = {'raised': None}
        except OSError as e:
            out = {'raised': type(e).__name__, 'text': str(e)}
        with open(result_path, 'w') as f:
            json.dump(out, f)
        return
    params = WARCRecorderParams(compress=compress, log=False, temp_dir=workdir,
                                max_size=(200 if scenario == 'rollover' else None),
                                cdx=(scenario == 'cdx'), appending=(scenario == 'fresh-appending'))
    if scenario in ('fresh', 'fresh-appending'):
        # the monitored append is the very first record of a new archive (the warcinfo record written by the constructor):
        # the pre-append length is 0
        with open(os.path.join(workdir, 'snap.bin'), 'wb') as f:
            pass
        with open(os.path.join(workdir, 'meta.json'), 'w') as f:
            json.dump({'warc': 'arch.warc.gz' if compress else 'arch.warc', 'snapshot_len': 0}, f)
        os.environ['FI_ARMED'] = '1'
        try:
            WARCRecorder(prefix, params=params)
            out = {'raised': None}
        except BaseException as e:
            out = {'raised': type(e).__name__, 'text': str(e)[:200], 'is_oserror': isinstance(e, OSError)}
        os.environ['FI_ARMED'] = '0'
        with open(result_path, 'w') as f:
            json.dump(out, f)
        return
    if scenario == 'appending':
        # an earlier run left an archive with records; a new run continues it (--warc-append): the monitored append is
        # the first one of the new recorder object (its warcinfo record, written by the constructor)
        first = WARCRecorder(prefix, params=params)

        def make0(i, n):
            rec = WARCRecord()
            rec.set_common_fields('resource', 'application/octet-stream')
            rec.fields['WARC-Target-URI'] = 'urn:x-verif:%d' % i
            rec.block_file = io.BytesIO(bytes((i * 7 + j * 13) % 251 for j in range(n)))
            first.set_length_and_maybe_checksums(rec)
            return rec
        for i in range(earlier):
            first.write_record(make0(i, 40 + i))
        first.close()
        warc_name = prefix + ('.warc.gz' if compress else '.warc')
        with open(warc_name, 'rb') as f:
            snapshot = f.read()
        with open(os.path.join(workdir, 'snap.bin'), 'wb') as f:
            f.write(snapshot)
        with open(os.path.join(workdir, 'meta.json'), 'w') as f:
            json.dump({'warc': os.path.basename(warc_name), 'snapshot_len': len(snapshot)}, f)
        os.environ['FI_ARMED'] = '1'
        try:
            WARCRecorder(prefix, params=WARCRecorderParams(compress=compress, log=False, temp_dir=workdir, appending=True))
            out = {'raised': None}
        except BaseException as e:
            out = {'raised': type(e).__name__, 'text': str(e)[:200], 'is_oserror': isinstance(e, OSError)}
        os.environ['FI_ARMED'] = '0'
        with open(result_path, 'w') as f:
            json.dump(out, f)
        return
    if scenario in ('overwrite', 'meta'):
        # 'overwrite': an earlier run left an archive with records; the same command is run again without --warc-append and
        #   starts the archive over.  The monitored operation is the construction of the new recorder (replacing the old
        #   archive and appending its first record).
        # 'meta': size-split archives (--warc-max-size) with the log record enabled; the monitored operation is close(),
        #   which starts NAME-meta.warc[.gz] and appends its warcinfo and the log record there.
        p1 = WARCRecorderParams(compress=compress, log=(scenario == 'meta'), temp_dir=workdir,
                                max_size=(10 ** 6 if scenario == 'meta' else None))
        first = WARCRecorder(prefix, params=p1)

        def make1(i, n):
            rec = WARCRecord()
            rec.set_common_fields('resource', 'application/octet-stream')
            rec.fields['WARC-Target-URI'] = 'urn:x-verif:%d' % i
            rec.block_file = io.BytesIO(bytes((i * 7 + j * 13) % 251 for j in range(n)))
            first.set_length_and_maybe_checksums(rec)
            return rec
        for i in range(earlier):
            first.write_record(make1(i, 40 + i))
        if scenario == 'overwrite':
            first.close()
        snaps = {}
        for path in sorted(glob.glob(prefix + '*.warc*')):
            if path.endswith('-wpullinc'):
                continue
            with open(path, 'rb') as f:
                data = f.read()
            snaps[os.path.basename(path)] = len(data)
            with open(os.path.join(workdir, 'snap-' + os.path.basename(path)), 'wb') as f:
                f.write(data)
        with open(os.path.join(workdir, 'meta.json'), 'w') as f:
            json.dump({'multi': True, 'snaps': snaps, 'preserve': scenario == 'meta'}, f)
        os.environ['FI_ARMED'] = '1'
        try:
            if scenario == 'overwrite':
                WARCRecorder(prefix, params=WARCRecorderParams(compress=compress, log=False, temp_dir=workdir))
            else:
                first.close()
            out = {'raised': None}
        except BaseException as e:
            out = {'raised': type(e).__name__, 'text': str(e)[:200], 'is_oserror': isinstance(e, OSError)}
        os.environ['FI_ARMED'] = '0'
        with open(result_path, 'w') as f:
            json.dump(out, f)
        return
    recorder = WARCRecorder(prefix, params=params)      # writes the warcinfo record

    def make(i, n):
        rec = WARCRecord()
        rec.set_common_fields('resource', 'application/octet-stream')
        rec.fields['WARC-Target-URI'] = 'urn:x-verif:%d' % i
        data = bytes((i * 7 + j * 13) % 251 for j in range(n))
        rec.block_file = io.BytesIO(data)
        recorder.set_length_and_maybe_checksums(rec)
        return rec
    for i in range(earlier):
        recorder.write_record(make(i, 40 + i))
    warc_name = recorder._warc_filename
    with open(warc_name, 'rb') as f:
        snapshot = f.read()
    with open(os.path.join(workdir, 'snap.bin'), 'wb') as f:
        f.write(snapshot)
    with open(os.path.join(workdir, 'meta.json'), 'w') as f:
        json.dump({'warc': os.path.basename(warc_name), 'snapshot_len': len(snapshot)}, f)
    rec = make(1000, size)
    if scenario == 'cdx':
        # with --warc-cdx an HTTP response record is followed by a line in the CDX file
        rec = WARCRecord()
        rec.set_common_fields('response', 'application/http; msgtype=response')
        rec.fields['WARC-Target-URI'] = 'http://h.test/page'
        rec.block_file = io.BytesIO(b'HTTP/1.1 200 OK\r\nContent-Type: text/html\r\nContent-Length: 5\r\n\r\nhello')
        recorder.set_length_and_maybe_checksums(rec, payload_offset=64)
    os.environ['FI_ARMED'] = '1'
    try:
        recorder.write_record(rec)
        out = {'raised': None}
    except BaseException as e:
        out = {'raised': type(e).__name__, 'text': str(e)[:200], 'is_oserror': isinstance(e, OSError)}
    os.environ['FI_ARMED'] = '0'
    if os.environ.get('VERIF_THEN_APPEND'):
        # the run goes on: one more record is appended by the same recorder (no fault this time)
        try:
            recorder.write_record(make(1001, 33))
            out['second'] = None
        except BaseException as e:
            out['second'] = type(e).__name__
    with open(result_path, 'w') as f:
        json.dump(out, f)


# ------------------------------------------------------------------------------------------ parent
def run_child(workdir, cfg, at, mode, errno_, log=None, scenario=None, at2=None, then_append=False):
    if scenario in ('restart', 'restart-fresh') and ':' in cfg.get('scenario', ''):
        scenario = scenario + ':' + cfg['scenario'].split(':', 1)[1]
    env = par.child_env({
        'LD_PRELOAD': FI_SO, 'FI_PATH': os.path.join(workdir, 'arch'), 'FI_AT': str(at), 'FI_MODE': mode,
        'FI_ERRNO': str(errno_ or 28), 'FI_ARMED': '0'})
    if log:
        env['FI_LOG'] = log
    if at2:
        env['FI_AT2'] = str(at2)
    if then_append:
        env['VERIF_THEN_APPEND'] = '1'
    proc = subprocess.run(
        [par.PY, '-m', 'checks.c06_warcfault', '--child', workdir, '1' if cfg['compress'] else '0',
         str(cfg['earlier']), str(cfg['size']), scenario or cfg.get('scenario', 'plain')],
        cwd=workdir, env=env, stdout=subprocess.PIPE, stderr=subprocess.STDOUT, timeout=120)
    return proc


def read_ops(log):
    ops = []
    try:
        with open(log) as f:
            for line in f:
                parts = line.split()
                if len(parts) >= 4:
                    ops.append({'n': int(parts[0]), 'kind': parts[1], 'file': os.path.basename(parts[2]),
                                'size': int(parts[3])})
    except OSError:
        pass
    return ops


def count_ops(cfg):
    workdir = tempfile.mkdtemp(prefix='vc06')
    try:
        log = os.path.join(workdir, 'ops.log')
        proc = run_child(workdir, cfg, 0, 'err', 0, log=log)
        ops = read_ops(log)
        ok = os.path.exists(os.path.join(workdir, 'result.json'))
        return ops, ok, proc.stdout.decode('utf-8', 'replace')[-500:]
    finally:
        shutil.rmtree(workdir, ignore_errors=True)


def case_worker(job):
    '''One (cfg, k, mode) case in its own workdir; returns a Part dump.'''
    part = common.Part()
    cfg, k, mode, errno_ = job['cfg'], job['k'], job['mode'], job['errno']
    op = job['op']
    workdir = tempfile.mkdtemp(prefix='vc06')
    replay = {'cfg': cfg, 'k': k, 'mode': mode, 'errno': errno_, 'k2': job.get('k2')}
    try:
        proc = run_child(workdir, cfg, k, mode, errno_, at2=job.get('k2'), then_append=job.get('then_append'))
        part.evaluations += 1
        part.count('cases_' + mode)
        opclass = '{}:{}'.format(op['kind'], 'journal' if op['file'].endswith('-wpullinc') else 'archive')
        part.nontrivial_case('{}/{}/{}/{}/{}'.format(int(cfg['compress']), cfg['earlier'], opclass, mode, cfg.get('scenario')))
        try:
            with open(os.path.join(workdir, 'meta.json')) as f:
                meta = json.load(f)
            if meta.get('multi'):
                judge_multi(part, workdir, meta, proc, cfg, op, opclass, mode, errno_, replay)
                return part.dump()
            with open(os.path.join(workdir, 'snap.bin'), 'rb') as f:
                snapshot = f.read()
        except OSError:
            part.inconclusive.append('child did not reach the monitored append: ' +
                                     proc.stdout.decode('utf-8', 'replace')[-300:])
            return part.dump()
        warc_path = os.path.join(workdir, meta['warc'])
        try:
            with open(warc_path, 'rb') as f:
                archive = f.read()
        except OSError:
            # a fresh archive that was never created is the same as an empty one
            archive = b'' if not snapshot else None
        journals = sorted(glob.glob(os.path.join(workdir, 'arch*-wpullinc')))
        result = None
        if os.path.exists(os.path.join(workdir, 'result.json')):
            with open(os.path.join(workdir, 'result.json')) as f:
                result = json.load(f)
        detail = {'op': op, 'mode': mode, 'errno': errno_, 'cfg': cfg, 'result': result,
                  'archive_len': None if archive is None else len(archive), 'snapshot_len': len(snapshot),
                  'journals': [os.path.basename(j) for j in journals]}
        if job.get('k2'):
            # fault sequence: a second error hits the rollback / clean-up.  The archive must either be restored (and the
            # journal gone) or the journal must still describe how to restore it.
            part.count('double_fault_cases')
            detail['k2'] = job['k2']
            if job.get('then_append'):
                part.count('double_fault_cases_followed_by_another_append')
                replay['then_append'] = True
            if proc.returncode != 0 or result is None:
                part.violation('process-died-on-io-error/double-fault', dict(detail, rc=proc.returncode), replay)
            elif job.get('then_append') and not journals and archive is not None and archive[:len(snapshot)] == snapshot and \
                    valid_archive(archive, cfg['compress']) is True:
                part.count('double_fault_then_append_archive_valid')
            elif archive == snapshot and not journals:
                part.count('double_fault_restored')
            elif result['raised'] is None and valid_archive(archive, cfg['compress']) is True and not journals:
                part.count('double_fault_not_reached_or_harmless')
            else:
                ok = False
                if journals:
                    try:
                        with open(journals[0]) as f:
                            text = f.read()
                        off = [int(line.split(':', 1)[1]) for line in text.splitlines() if line.startswith('offset:')]
                        ok = bool(off) and off[0] == len(snapshot) and archive is not None and archive[:off[0]] == snapshot
                    except (OSError, ValueError):
                        ok = False
                if ok:
                    part.count('double_fault_journal_still_restores')
                else:
                    second = job.get('op2', {})
                    part.violation('double-fault-{}leaves-damaged-archive-without-usable-journal/{}+{}:{}'.format(
                        'then-next-append-' if job.get('then_append') else '', opclass, second.get('kind'), 'journal' if str(second.get('file', '')).endswith('-wpullinc') else 'archive'),
                        detail, replay)
            return part.dump()
        if op['file'].endswith('.cdx'):
            # the fault or kill hits the CDX file, after the append to the archive has been completed: the archive holds
            # the earlier records (and possibly the new one) as a valid sequence, and no journal stays behind
            opclass = '{}:cdx-file'.format(op['kind'])
            part.count('faults_on_the_cdx_file')
            verdict = valid_archive(archive, cfg['compress'])
            if mode in ('err', 'sticky', 'short') and (proc.returncode != 0 or result is None):
                part.violation('process-died-on-io-error/' + opclass, dict(detail, rc=proc.returncode), replay)
            elif verdict is not True or archive[:len(snapshot)] != snapshot:
                part.violation('archive-damaged-by-a-failure-on-the-cdx-file/' + opclass, dict(detail, verdict=str(verdict)), replay)
            elif journals:
                part.violation('journal-left-although-the-append-was-completed/' + opclass, detail, replay)
            else:
                part.count('archive_valid_and_no_journal_after_cdx_failure')
            return part.dump()
        if mode in ('err', 'sticky', 'short'):
            if proc.returncode != 0 or result is None:
                part.violation('process-died-on-io-error/' + opclass, dict(detail, rc=proc.returncode,
                               out=proc.stdout.decode('utf-8', 'replace')[-300:]), replay)
                return part.dump()
            if result['raised'] is None:
                # the injected error was swallowed: then the append must be complete and valid
                part.count('error_swallowed')
                verdict = valid_archive(archive, cfg['compress'])
                if verdict is not True or journals:
                    part.violation('error-swallowed-but-archive-or-journal-bad/' + opclass,
                                   dict(detail, verdict=str(verdict)), replay)
                elif opclass.endswith(':archive') and op['kind'] in ('write', 'writev', 'pwrite') and \
                        cfg.get('scenario') in (None, 'plain', 'appending') and not (len(archive) > len(snapshot) and
                                                                         archive[:len(snapshot)] == snapshot):
                    # the append was reported as done although a write of the archive failed: the record must be there
                    part.violation('append-reported-done-but-record-missing/' + opclass, detail, replay)
                return part.dump()
            part.count('append_raised')
            if not result.get('is_oserror'):
                part.violation('non-oserror-raised/' + opclass, detail, replay)
            if opclass == 'unlink:journal' and journals and archive is not None and \
                    archive[:len(snapshot)] == snapshot and valid_archive(archive, cfg['compress']) is True:
                # mechanism: the append itself completed; only the removal of the journal failed, so the
                # complete record and the journal both remain (the next run refuses to start)
                part.violation('journal-unlink-fails-after-complete-append', detail, replay)
                return part.dump()
            if archive != snapshot:
                kind = 'all-nul' if archive is not None and len(archive) == len(snapshot) and \
                    archive.count(0) == len(archive) else ('longer' if archive is not None and
                                                           len(archive) > len(snapshot) else 'other')
                part.violation('archive-differs-after-failed-append/{}/{}'.format(kind, opclass), detail, replay)
            else:
                part.count('archive_equals_snapshot')
            if journals:
                part.violation('journal-left-after-failed-append/' + opclass, detail, replay)
            else:
                part.count('no_journal_after_failure')
        else:
            if proc.returncode != 137:
                # the kill point was not reached (e.g. op index beyond this path); nothing to judge
                part.count('kill_not_reached')
                return part.dump()
            part.count('killed')
            verdict = valid_archive(archive, cfg['compress'])
            if verdict is True:
                part.count('archive_valid_after_kill')
            else:
                ok = False
                if journals:
                    try:
                        with open(journals[0]) as f:
                            text = f.read()
                        off = None
                        for line in text.splitlines():
                            if line.startswith('offset:'):
                                off = int(line.split(':', 1)[1])
                        if off == len(snapshot) and archive is not None and archive[:off] == snapshot:
                            ok = True
                            part.count('journal_restores_snapshot')
                        else:
                            detail['journal_text'] = text[:200]
                    except (OSError, ValueError) as e:
                        detail['journal_error'] = str(e)
                if not ok:
                    part.violation('kill-leaves-invalid-archive-without-usable-journal/{}/{}'.format(mode, opclass),
                                   dict(detail, verdict=str(verdict)), replay)
            if journals:
                # a new run must refuse to start - with --warc-append and without - and must leave archive and journal as they are
                for restart in ('restart', 'restart-fresh'):
                    run_child(workdir, cfg, 0, 'err', 0, scenario=restart)
                    try:
                        with open(os.path.join(workdir, 'result.json')) as f:
                            r2 = json.load(f)
                    except (OSError, ValueError):
                        r2 = None
                    try:
                        with open(warc_path, 'rb') as f:
                            after_restart = f.read()
                    except OSError:
                        after_restart = b'' if archive == b'' else None      # (an archive that was never created)
                    if not r2 or r2.get('raised') is None:
                        part.violation('restart-accepted-leftover-journal' + ('/without-append' if restart == 'restart-fresh' else ''),
                                       dict(detail, restart=r2), replay)
                        break
                    elif after_restart != archive or sorted(glob.glob(os.path.join(workdir, 'arch*-wpullinc'))) != journals:
                        part.violation('refused-restart-changed-the-archive-or-its-journal/' + restart,
                                       dict(detail, archive_len_after_restart=None if after_restart is None else len(after_restart)), replay)
                        break
                    else:
                        part.count('restart_refused_with_journal')
    finally:
        shutil.rmtree(workdir, ignore_errors=True)
    return part.dump()


def judge_multi(part, workdir, meta, proc, cfg, op, opclass, mode, errno_, replay):
    '''Operations that touch several archive files or replace one (scenarios 'overwrite', 'meta').  The exact bytes
    "before the attempt" are not fixed from outside (the operation consists of several appends, or starts with emptying
    the file), so the verdict uses what the property promises of every archive file: after an I/O error it is a valid
    record sequence, keeps the earlier records where they are to be kept, and no journal remains; after a kill it is
    valid, or its own journal <archive>-wpullinc names a length that restores a valid archive (with the earlier records).'''
    sc = cfg['scenario']
    snaps = {}
    for name in meta['snaps']:
        with open(os.path.join(workdir, 'snap-' + name), 'rb') as f:
            snaps[name] = f.read()
    archives = {}
    for path in sorted(glob.glob(os.path.join(workdir, 'arch*.warc*'))):
        if not path.endswith('-wpullinc'):
            with open(path, 'rb') as f:
                archives[os.path.basename(path)] = f.read()
    journals = sorted(os.path.basename(j) for j in glob.glob(os.path.join(workdir, 'arch*-wpullinc')))
    result = None
    if os.path.exists(os.path.join(workdir, 'result.json')):
        with open(os.path.join(workdir, 'result.json')) as f:
            result = json.load(f)
    detail = {'op': op, 'mode': mode, 'errno': errno_, 'cfg': cfg, 'result': result, 'journals': journals,
              'archives': {k: len(v) for k, v in archives.items()}, 'before': {k: len(v) for k, v in snaps.items()}}

    def keeps_earlier(name, data):
        return not meta['preserve'] or data[:len(snaps.get(name, b''))] == snaps.get(name, b'')
    if meta['preserve']:
        for name in snaps:
            if name not in archives:
                part.violation('archive-file-gone/{}/{}'.format(sc, opclass), dict(detail, file=name), replay)
    if mode in ('err', 'sticky', 'short'):
        if proc.returncode != 0 or result is None:
            part.violation('process-died-on-io-error/' + opclass, dict(detail, rc=proc.returncode,
                           out=proc.stdout.decode('utf-8', 'replace')[-300:]), replay)
            return
        part.count('append_raised' if result['raised'] else 'error_swallowed')
        if result['raised'] and not result.get('is_oserror'):
            part.violation('non-oserror-raised/' + opclass, detail, replay)
        bad = False
        for name, data in archives.items():
            verdict = valid_archive(data, cfg['compress'])
            if verdict is not True or not keeps_earlier(name, data):
                bad = True
                if opclass == 'unlink:journal' and journals:
                    continue
                part.violation('archive-not-a-valid-record-sequence-after-failed-append/{}/{}'.format(sc, opclass),
                               dict(detail, file=name, verdict=str(verdict)), replay)
        if journals:
            if opclass == 'unlink:journal' and not bad:
                # (the mechanism recorded for single appends: only the removal of the journal failed)
                part.violation('journal-unlink-fails-after-complete-append', detail, replay)
            else:
                part.violation('journal-left-after-failed-append/' + opclass, detail, replay)
        elif not bad:
            part.count('archives_valid_and_no_journal_after_failure')
            part.count('archive_equals_snapshot')
        return
    if proc.returncode != 137:
        part.count('kill_not_reached')
        return
    part.count('killed')
    for name, data in archives.items():
        verdict = valid_archive(data, cfg['compress'])
        if verdict is True and keeps_earlier(name, data):
            part.count('archive_valid_after_kill')
            continue
        ok = False
        jname = name + '-wpullinc'
        if jname in journals:
            try:
                with open(os.path.join(workdir, jname)) as f:
                    text = f.read()
                off = [int(line.split(':', 1)[1]) for line in text.splitlines() if line.startswith('offset:')]
                if off and off[0] <= len(data) and valid_archive(data[:off[0]], cfg['compress']) is True and \
                        keeps_earlier(name, data[:off[0]]) and (not meta['preserve'] or off[0] >= len(snaps.get(name, b''))):
                    ok = True
                    part.count('journal_restores_snapshot')
                else:
                    detail['journal_text'] = text[:200]
            except (OSError, ValueError) as e:
                detail['journal_error'] = str(e)
        if not ok:
            part.violation('kill-leaves-invalid-archive-without-usable-journal/{}/{}/{}'.format(sc, mode, opclass),
                           dict(detail, file=name, verdict=str(verdict)), replay)
    if journals:
        run_child(workdir, cfg, 0, 'err', 0, scenario='restart')
        try:
            with open(os.path.join(workdir, 'result.json')) as f:
                r2 = json.load(f)
        except (OSError, ValueError):
            r2 = None
        if not r2 or r2.get('raised') is None:
            part.violation('restart-accepted-leftover-journal', dict(detail, restart=r2), replay)
        else:
            part.count('restart_refused_with_journal')


def valid_archive(data, compress):
    if data is None:
        return 'archive missing'
    try:
        refwarc.read_warc(data, compress)
        return True
    except refwarc.WarcError as e:
        return str(e)


def main():
    if len(sys.argv) > 1 and sys.argv[1] == '--child':
        child_main(sys.argv[2:])
        return
    check = common.Check('C06', level='fault_enumeration')
    check.rule = ('all (compress, earlier records R, record size, scenario) configurations x every interposed file operation '
                  'k of the monitored append x 9 fault/kill modes (error once with ENOSPC / EIO / EACCES / EPERM, sticky error, short write then errors, kills); distinct_nontrivial = distinct (compress, R, op kind:file '
                  'role at k, mode, scenario) with the case executed')
    check.trusted_base.append('harness/fi/fi.c LD_PRELOAD interposer (open/write/pwrite/writev/fsync/close/ftruncate/unlink/rename)')
    check.assumptions = ['file operations go through libc wrappers (true for CPython)',
                         'a kill is process death (_exit), not power loss: completed writes are visible afterwards']
    if not ensure_fi():
        check.note_inconclusive('fi.so cannot be built')
        check.finish()
    if check.args.replay:
        with open(check.args.replay) as f:
            rp = json.load(f)['replay']
        ops, ok, out = count_ops(rp['cfg'])
        op = ops[rp['k'] - 1] if 0 < rp['k'] <= len(ops) else {'kind': '?', 'file': '?', 'size': 0}
        check.merge(case_worker({'cfg': rp['cfg'], 'k': rp['k'], 'mode': rp['mode'], 'errno': rp['errno'], 'op': op, 'k2': rp.get('k2'),
                                 'then_append': rp.get('then_append')}))
        check.finish()
    cfgs = []
    sizes = [60] if not check.thorough else [60, 30000, 200000]
    for compress in (False, True):
        for earlier in ((0, 1, 3) if not check.thorough else (0, 1, 2, 3, 8)):
            for size in sizes:
                cfgs.append({'compress': compress, 'earlier': earlier, 'size': size, 'scenario': 'plain'})
    # the first record of a fresh archive (pre-append length 0)
    for compress in (False, True):
        cfgs.append({'compress': compress, 'earlier': 0, 'size': 0, 'scenario': 'fresh'})
        cfgs.append({'compress': compress, 'earlier': 0, 'size': 0, 'scenario': 'fresh-appending'})
    # a new run that appends to the archive of an earlier one
    for compress in (False, True):
        cfgs.append({'compress': compress, 'earlier': 2, 'size': 0, 'scenario': 'appending'})
    # size-based rollover: the archive (and its journal) carry a sequence number in their names
    for compress in (False, True):
        cfgs.append({'compress': compress, 'earlier': 1, 'size': 60, 'scenario': 'rollover'})
    # an archive prefix with glob metacharacters (the start-up check looks for journals with a glob pattern)
    for compress in (False, True):
        cfgs.append({'compress': compress, 'earlier': 1, 'size': 60, 'scenario': 'plain:bracket'})
    # the same command run again without --warc-append (the old archive is replaced), and the NAME-meta archive that
    # close() writes for size-split archives
    for compress in (False, True):
        cfgs.append({'compress': compress, 'earlier': 3, 'size': 0, 'scenario': 'overwrite'})
        cfgs.append({'compress': compress, 'earlier': 2, 'size': 0, 'scenario': 'meta'})
    for compress in ((False, True) if check.thorough else (False,)):
        cfgs.append({'compress': compress, 'earlier': 2, 'size': 60, 'scenario': 'cdx'})
    jobs = []
    op_lists = {}
    for cfg in cfgs:
        ops, ok, out = count_ops(cfg)
        if not ok or not ops:
            check.note_inconclusive('counting run failed for {}: {}'.format(cfg, out))
            continue
        op_lists[common.jhash(cfg)] = ops
        check.count('operations_enumerated', len(ops))
        for op in ops:
            for mode, errno_ in MODES:
                if not check.thorough and (mode, errno_) in (('err', 5), ('err', 1)):
                    continue        # (quick tier: one errno of each class - ENOSPC and EACCES)
                jobs.append({'cfg': cfg, 'k': op['n'], 'mode': mode, 'errno': errno_, 'op': op})
    # fault sequences: first error at an archive operation of the append, second error at each of the operations the
    # rollback / clean-up performs afterwards (their indices are learnt from a run with the first fault alone)
    for cfg in cfgs:
        if cfg['scenario'] != 'plain' or cfg['earlier'] != 1 or (cfg['size'] != 60):
            continue
        ops = op_lists.get(common.jhash(cfg)) or []
        for op in ops:
            if op['file'].endswith('-wpullinc') or op['kind'] == 'unlink':
                continue
            # first fault: the operation fails outright ('err'), or - for writes - stores half of its bytes first ('short': the
            # archive really is damaged when the rollback then fails too)
            for first_mode in (('err', 'short') if op['kind'] in ('write', 'writev', 'pwrite') else ('err',)):
                workdir = tempfile.mkdtemp(prefix='vc06')
                try:
                    log = os.path.join(workdir, 'ops.log')
                    run_child(workdir, cfg, op['n'], first_mode, 28, log=log)
                    after = [o for o in read_ops(log) if o['n'] > op['n']]
                finally:
                    shutil.rmtree(workdir, ignore_errors=True)
                for o2 in after:
                    for then_append in (False, True):
                        jobs.append({'cfg': cfg, 'k': op['n'], 'mode': first_mode, 'errno': 28, 'op': op, 'k2': o2['n'], 'op2': o2,
                                     'then_append': then_append})
                        check.count('fault_sequences_enumerated')
    check.sample({'cfg': cfgs[0], 'operations': op_lists.get(common.jhash(cfgs[0]))})
    check.sample({'cfg': cfgs[-1], 'operations': op_lists.get(common.jhash(cfgs[-1]))})
    res = par.run_jobs('checks.c06_warcfault:case_worker', jobs, check.jobs, timeout=300)
    for r in res:
        if '_error' in r:
            check.note_inconclusive('worker: ' + r['_error'] + ' ' + r.get('_stderr', '')[-300:])
        else:
            check.merge(r)
    check.exhaustive = not check.inconclusive
    check.extra['fault_points'] = len(jobs)
    check.finish(required_counters=('append_raised', 'killed', 'archive_equals_snapshot'))


if __name__ == '__main__':
    main()
