'''C15 - downloaded files are always written inside the download directory.

Monitor: real PathNamer / file writer sessions built from real CLI option strings name (and
create) files for generated hostile URLs and Content-Disposition values inside a sandbox
directory; an oracle checks every path component below the prefix and that nothing was created
outside the prefix.
'''
import json
import os
import random
import shutil
import tempfile

from harness import common, par

HOSTS = ['a.test', 'A.Test', 'a.test:8080', '[::1]', '[2001:db8::1]:81', '10.0.0.1', 'xn--bcher-kva.test', 'bücher.test',
         'a.test.']
SEGS = ['a', 'b', 'index.html', '.', '..', '%2e', '%2E%2E', '%2e%2e', '%2F', '%2f..%2f..%2fetc', 'a%2Fb', '%5C', '%5c..%5c',
        '\\', '..\\..', '%00', 'x%00y', '%0a', '%0d%0a', '%01', '%7f', '%80', 'é', '日本', 'a b', ' ', '.hidden', 'a.', 'a ',
        'CON', 'nul.txt', 'x' * 300, 'é' * 120, '%25', '%252e%252e', '~', '*', '?', 'a:b', 'a|b', '<x>', '"q"', '%2e%2e%2f',
        '...', '. .', '%20', '%2E%20', '-', '+',
        # compatibility characters that Unicode normalisation folds into dots and slashes
        '%E2%80%A5', '%EF%BC%8F', '%E2%80%A4', '%EF%BC%8E', '%EF%B9%92', '\u2025', '\uff0f', 'a%EF%BC%8Fb', '%E2%80%A4%E2%80%A4',
        '%EF%BC%8E%EF%BC%8E', '%EF%BC%BC', '..%EF%BC%8F',
        # a control character as the very last / very first character of an otherwise plain name
        'notes%0A', 'readme.txt%0A', 'a%0a', '%0Aa', 'a%0D', 'plain-name_1.0%0A', 'a%09', 'a%1F',
        # names that are templates for a string formatter (a numbered second copy is derived from the first name)
        '..{0.__truediv__.__doc__[11]}x', '{0.__doc__[19]}', '{0}', '{}', '{0!r}', 'a{0:>20}b', '%7B0%7D', '{0.__class__}', '%(x)s', '%s', '%d',
        '$HOME', '${HOME}', '~root', '`id`', '$(id)']
QUERIES = ['', '', '', 'a=1', 'p=/etc/passwd', 'x=../../y', 'q=a%2Fb', 'q=%2e%2e', 'a=1&b=2', 'x=' + 'y' * 400, 'é=ü', '/', '..',
           'q=a\\b']
DISPOSITIONS = [None, None, 'attachment; filename=report.pdf', 'attachment; filename="a b.txt"', 'attachment; filename=../../evil',
                'attachment; filename="../../../etc/passwd"', 'attachment; filename=/abs/path', 'attachment; filename=..',
                'attachment; filename="."', 'attachment; filename="..\\..\\win"', 'inline; filename=a/b/c', 'attachment; filename="x\x01y"',
                'attachment; filename=%2e%2e%2fz', 'attachment; filename="é.txt"', "attachment; filename='q'", 'attachment; filename=',
                'attachment; filename="a"; size=1', 'attachment; FILENAME=UP.TXT', 'attachment; filename="' + 'n' * 500 + '"',
                'attachment; filename=a\\"b', 'attachment; filename="..  "', 'attachment; filename="x "', 'attachment; filename=x.',
                # an empty or blank unquoted name followed by further parameters
                "attachment; filename=; filename*=UTF-8''x.pdf", 'attachment; filename=;', 'attachment; filename= ; size=12',
                'attachment; filename=\t;x=y', 'attachment; filename=" "']


def gen_options(rng):
    opts = []
    restrict = []
    if rng.random() < 0.6:
        restrict = rng.sample(['windows', 'unix', 'lower', 'upper', 'ascii', 'nocontrol'], rng.randrange(1, 4))
        if 'windows' in restrict and 'unix' in restrict:
            restrict.remove(rng.choice(['windows', 'unix']))
        if 'lower' in restrict and 'upper' in restrict:
            restrict.remove('upper')
        if restrict:
            opts += ['--restrict-file-names', ','.join(restrict)]
    r = rng.random()
    if r < 0.3:
        opts.append('--no-directories')
    elif r < 0.6:
        opts.append('--force-directories')
    if rng.random() < 0.3:
        opts.append('--no-host-directories')
    if rng.random() < 0.3:
        opts.append('--protocol-directories')
    if rng.random() < 0.3:
        opts += ['--cut-dirs', str(rng.choice([0, 1, 2, 5]))]
    if rng.random() < 0.3:
        opts += ['--max-filename-length', str(rng.choice([1, 2, 8, 9, 12, 30, 200]))]
    if rng.random() < 0.2:
        opts += ['--default-page', rng.choice(['index.html', 'default.htm', 'x'])]
    if rng.random() < 0.5:
        opts.append('--content-disposition')
    if rng.random() < 0.3:
        opts.append('-r')
    if rng.random() < 0.2:
        opts.append('--adjust-extension')
    return opts, restrict


def gen_url(rng):
    scheme = rng.choice(['http', 'http', 'https', 'ftp', 'ftp'])
    host = rng.choice(HOSTS)
    segs = [rng.choice(SEGS) for _ in range(rng.choice([0, 1, 1, 2, 3, 5]))]
    path = '/' + '/'.join(segs)
    if rng.random() < 0.3:
        path += '/'
    q = rng.choice(QUERIES) if scheme != 'ftp' else ''
    url = '{}://{}{}{}'.format(scheme, host, path, '?' + q if q else '')
    feature = any(x in url.lower() for x in ('%2f', '%2e', '%00', '%5c', '\\', '..', '%0', '%7f', '/./'))
    return url, feature


def judge_path(chosen, prefix, restrict, part, replay, what):
    if replay.get('prefix_style', 'abs') != 'abs' and os.path.isabs(chosen):
        # the user gave a relative (or empty) directory prefix: the chosen path must stay relative to the working directory
        part.violation('absolute-path-for-relative-prefix/{}/{}'.format(replay['prefix_style'], what),
                       {'chosen': chosen, 'url': replay['url'], 'options': replay['options']}, replay)
        return False
    chosen = os.path.abspath(chosen)
    rel = os.path.relpath(chosen, prefix)
    comps = rel.split(os.sep)
    windows = 'windows' in restrict
    nocontrol = 'nocontrol' in restrict
    key = None
    for c in comps:
        if c == '':
            key = 'empty-component'
        elif c == '.':
            key = 'dot-component'
        elif c == '..':
            key = 'dotdot-component'
        elif windows and '\\' in c:
            key = 'backslash-in-component-windows-mode'
        elif not nocontrol and any(ord(ch) < 32 for ch in c):
            key = 'control-character-in-component'
        if key:
            break
    if os.path.isabs(rel) or not os.path.abspath(chosen).startswith(os.path.abspath(prefix) + os.sep):
        key = 'path-outside-prefix'
    try:
        real = os.path.realpath(chosen)
    except ValueError:
        real = None         # embedded NUL (only possible when the user disabled the control-character restriction)
    if real is not None and not real.startswith(os.path.realpath(prefix) + os.sep):
        key = 'realpath-outside-prefix'
    if key:
        part.violation('{}/{}'.format(key, what), {'chosen': chosen, 'relative': rel, 'restrict': restrict,
                                                   'url': replay['url'], 'options': replay['options'],
                                                   'disposition': replay.get('disposition')}, replay)
        return False
    return True


def run_case(case, part):
    from wpull.application.options import AppArgumentParser
    from wpull.application.builder import Builder
    from wpull.application.tasks.writer import FileWriterSetupTask
    from wpull.pipeline.app import AppSession
    from wpull.url import URLInfo
    from wpull.protocol.http.request import Request as HTTPRequest, Response as HTTPResponse
    from wpull.protocol.ftp.request import Request as FTPRequest, Response as FTPResponse
    import io
    sandbox = tempfile.mkdtemp(prefix='vc15')
    prefix = os.path.join(sandbox, 'inner', 'download')
    os.makedirs(prefix)
    replay = case
    style = case.get('prefix_style', 'abs')
    old_cwd = os.getcwd()
    prefix_arg = prefix
    if style == 'empty':
        os.chdir(prefix)
        prefix_arg = ''
    elif style == 'dot':
        os.chdir(prefix)
        prefix_arg = '.'
    elif style == 'rel':
        os.chdir(os.path.dirname(prefix))
        prefix_arg = 'download'
    elif style == 'rel-nested':
        os.chdir(sandbox)
        prefix_arg = os.path.join('inner', 'download')
    part.count('prefix_style_' + style)
    try:
        try:
            info = URLInfo.parse(case['url'])
        except ValueError:
            part.count('url_rejected_by_parser')
            return
        argv = [case['url']] + case['options'] + ['-P', prefix_arg]
        args = AppArgumentParser().parse_args(argv)
        builder = Builder(args, unit_test=True)
        session = AppSession(builder.factory, args, io.StringIO())
        writer = FileWriterSetupTask._build_file_writer(session)
        namer = builder.factory['PathNamer']
        restrict = case['restrict']
        # 1. the path namer alone
        try:
            name = namer.get_filename(info)
            part.count('pathnamer_names')
            judge_path(name, prefix, restrict, part, replay, 'pathnamer')
        except Exception as e:
            part.count('exceptions_instead_of_path')
            part.count('exception_{}_{}'.format(type(e).__name__, 'windows' if 'windows' in restrict else 'unix'))
        # 2. the writer session (creates the file); then the same URL once more, now that the file exists (numbered copies,
        #    continuation and timestamp logic look at the existing name)
        for attempt in (1, 2):
          try:
              ws = writer.session()
              if info.scheme == 'ftp':
                  request = FTPRequest(case['url'])
                  response = FTPResponse()
              else:
                  request = HTTPRequest(case['url'])
                  response = HTTPResponse(200, 'OK')
                  if case.get('disposition'):
                      response.fields['Content-Disposition'] = case['disposition']
                  response.fields['Content-Type'] = 'text/html'
              response.request = request
              ws.process_request(request)
              ws.process_response(response)
              chosen = ws._filename
              if chosen:
                  part.count('writer_session_names')
                  ok = judge_path(chosen, prefix, restrict, part, replay,
                                  'writer+content-disposition' if case.get('disposition') and
                                  '--content-disposition' in case['options'] else 'writer')
                  if response.body:
                      response.body.close()
                  if ok and os.path.exists(chosen):
                      part.count('files_created_inside_prefix')
          except Exception as e:
              part.count('exceptions_instead_of_path')
              part.count('exception_{}_{}'.format(type(e).__name__, 'windows' if 'windows' in restrict else 'unix'))
              # the name may already have been chosen when opening it failed (e.g. it names a directory): judge it too
              chosen = getattr(ws, '_filename', None) if 'ws' in locals() else None
              if chosen:
                  part.count('names_judged_although_open_failed')
                  judge_path(chosen, prefix, restrict, part, replay,
                             'writer+content-disposition' if case.get('disposition') and
                             '--content-disposition' in case['options'] else 'writer')
        # 3. nothing may have been created outside the prefix (attempts outside the scratch area are stopped and recorded by
        #    the write guard of the worker process; attempts elsewhere inside it show up in the walk below)
        try:
            from compat import guard
            blocked = guard.pop_attempts()
        except ImportError:
            blocked = []
        if blocked:
            part.violation('write-attempted-outside-scratch-area', {'paths': blocked[:4], 'url': case['url'], 'options': case['options'],
                                                                    'disposition': case.get('disposition')}, replay)
        outside = []
        for root, dirs, files in os.walk(sandbox):
            for n in dirs + files:
                p = os.path.join(root, n)
                if not (p + os.sep).startswith(os.path.join(sandbox, 'inner') + os.sep):
                    outside.append(p)
        inner_children = os.listdir(os.path.join(sandbox, 'inner'))
        if outside or inner_children != ['download']:
            part.violation('file-created-outside-prefix', {'outside': outside[:5], 'inner': inner_children,
                                                           'url': case['url'], 'options': case['options']}, replay)
        else:
            part.count('sandbox_walks_clean')
    finally:
        os.chdir(old_cwd)
        shutil.rmtree(sandbox, ignore_errors=True)


def worker(job):
    import compat
    compat.install()
    import logging
    logging.disable(logging.CRITICAL)
    part = common.Part()
    if 'replay' in job:
        run_case(job['replay'], part)
        part.evaluations += 1
        return part.dump()
    rng = random.Random(job['seed'])
    for n in range(job['n']):
        options, restrict = gen_options(rng)
        url, feature = gen_url(rng)
        # how the user names the download directory: absolute path, or relative to the working directory ('' = the
        # working directory itself, '.', a relative name)
        case = {'url': url, 'options': options, 'restrict': restrict, 'disposition': rng.choice(DISPOSITIONS),
                'prefix_style': rng.choice(['abs', 'abs', 'abs', 'empty', 'dot', 'rel', 'rel-nested'])}
        part.evaluations += 1
        run_case(case, part)
        if feature:
            part.nontrivial_case(common.jhash([sorted(options), [c for c in ('%2f', '%2e', '%00', '%5c', '..', '\\')
                                                                   if c in url.lower()], url.split(':')[0]]))
        if n % 499 == 0:
            part.sample(case)
    return part.dump()


def main():
    check = common.Check('C15')
    check.rule = ('URLs (http/https/ftp; hosts incl. IPv6/ports/IDN; segments with %2F %2E%2E %00 %5C backslashes dots controls '
                  'very long names non-ASCII) x real CLI naming options (directories, cut, protocol/host dirs, restrict-file-names '
                  'combinations, max length, default page, content-disposition) x Content-Disposition values; both '
                  'PathNamer.get_filename and the writer session (which creates the file in a sandbox). distinct_nontrivial = '
                  'distinct (option vector, URL feature class, scheme) where the URL has an encoded separator/dot/control')
    check.assumptions = ['an exception instead of a path is counted separately (C09 territory), never as held']
    target = 'checks.c15_paths:worker'
    if check.args.replay:
        with open(check.args.replay) as f:
            rp = json.load(f)
        res = par.run_jobs(target, [{'seed': 0, 'replay': rp['replay']}], 1, timeout=120)
    else:
        total = int((1200000 if check.thorough else 24000) * check.scale)
        nj = check.jobs * (4 if check.thorough else 1)
        jobs = [{'seed': check.seed * 1000003 + i, 'n': max(1, total // nj)} for i in range(nj)]
        res = par.run_jobs(target, jobs, check.jobs, timeout=7200 if check.thorough else 900)
    for r in res:
        if '_error' in r:
            check.note_inconclusive('worker: ' + r['_error'] + ' ' + r.get('_stderr', '')[-400:])
        else:
            check.merge(r)
    check.finish(required_counters=() if check.args.replay else (
        'pathnamer_names', 'writer_session_names', 'files_created_inside_prefix', 'sandbox_walks_clean'))


if __name__ == '__main__':
    main()
