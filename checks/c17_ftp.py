'''C17 - each FTP command is one line, and replies are read whole.

Monitors on the real FTP Client/Session/Commander/ControlStream over scripted in-memory control and data
peers: (A) every write on the control connection must be exactly one well-formed command line and the
sequence of command verbs must be a prefix of the expected conversation, for URLs / logins with every
byte value percent-encoded; (B) read_reply must give the same (code, text) under every segmentation and
agree with a reference assembler; (C) download() may return normally only after data EOF and a 226.
'''
import asyncio
import io
import json
import random
import re
import urllib.parse

from harness import common, par, netsim, ftpsim

LINE_RE = re.compile(br'^[A-Z]{3,4}( [^\r\n\x00]*)?\r\n$')
EXPECTED = ['USER', 'PASS', 'SIZE', 'TYPE', 'PASV', 'RETR']
EXPECTED_LIST = ['USER', 'PASS', 'TYPE', 'PASV', 'MLSD', 'LIST']


def run_session(url, script, listing=False, login=None, client_setup=None, rate_limited=False, duration_timeout=None):
    '''Returns dict(outcome, control peer, events).'''
    from wpull.network.pool import ConnectionPool
    from wpull.protocol.ftp.client import Client
    from wpull.protocol.ftp.request import Request
    result = {}

    async def main():
        net = netsim.Net().install()
        try:
            control, data = ftpsim.install(net, script)
            if rate_limited:
                # --limit-rate with a limit far above anything the simulation delivers: only the code path differs
                import functools
                from wpull.network.connection import Connection
                from wpull.network.bandwidth import BandwidthLimiter
                pool = ConnectionPool(resolver=netsim.StaticResolver({'f.test': '127.0.3.1'}),
                                      connection_factory=functools.partial(Connection, bandwidth_limiter=BandwidthLimiter(10 ** 12)))
            else:
                pool = ConnectionPool(resolver=netsim.StaticResolver({'f.test': '127.0.3.1'}))
            client = Client(connection_pool=pool)
            teardown = client_setup(client) if client_setup else None
            result['control'] = control
            try:
                request = Request(url)
            except ValueError as e:
                result['error'] = 'ValueError-at-request: ' + str(e)[:100]
                return
            if login:
                request.username, request.password = login
            buf = io.BytesIO()

            async def go():
                session = client.session()
                with session:
                    if listing:
                        await session.start_listing(request)
                        resp = await session.download_listing(buf)
                    else:
                        await session.start(request)
                        if duration_timeout:
                            # --session-timeout: a limit on the whole transfer (wall clock)
                            resp = await session.download(buf, duration_timeout=duration_timeout)
                        else:
                            resp = await session.download(buf)
                    control.events.append('download-returned')
                    result['reply_code'] = resp.reply.code
            task = asyncio.ensure_future(go())
            idle = 0
            while not task.done() and idle < 3000:
                await asyncio.sleep(0)
                idle += 1
            if not task.done() and duration_timeout:
                # the peer has gone silent: the client's own time limit has to end the transfer
                try:
                    await asyncio.wait_for(asyncio.shield(task), duration_timeout * 6 + 1)
                except BaseException:
                    pass
            if not task.done():
                task.cancel()
                try:
                    await task
                except BaseException:
                    pass
                result['error'] = 'STALL'
            else:
                try:
                    task.result()
                    result['error'] = None
                except asyncio.CancelledError:
                    result['error'] = 'CancelledError'
                except Exception as e:
                    result['error'] = type(e).__name__
                    result['error_obj'] = e
            result['body'] = buf.getvalue()
            if teardown:
                try:
                    teardown()
                except Exception as e:
                    result['teardown_error'] = e
            try:
                client.close()
            except Exception:
                pass
        finally:
            net.uninstall()
    netsim.run(main(), timeout=60)
    return result


# ------------------------------------------------------------------------------------------ A: injection
def gen_injection_case(rng):
    byte = rng.randrange(256)
    enc = '%%%02X' % byte
    where = rng.choice(['path', 'path', 'user', 'password', 'login-user', 'login-password'])
    filler = rng.choice(['', 'a', 'DELE x', 'QUIT'])
    token = rng.choice([enc, enc + filler, '%0D%0A' + filler, 'x' + enc + enc, '%0A' + filler, '%0D' + filler,
                        '%00' + filler, 'a%20b' + enc])
    user, password, path, login = 'user', 'pw', '/dir/file.bin', None
    if where == 'path':
        path = rng.choice(['/dir/' + token, '/' + token + '/file', '/dir/file' + token])
    elif where == 'user':
        user = 'us' + token
    elif where == 'password':
        password = 'p' + token
    elif where == 'login-user':
        login = [urllib.parse.unquote_to_bytes('u' + token).decode('latin-1'), 'pw']
        user = password = None
    else:
        login = ['user', urllib.parse.unquote_to_bytes('p' + token).decode('latin-1')]
        user = password = None
    auth = '{}:{}@'.format(user, password) if user else ''
    return {'kind': 'injection', 'url': 'ftp://{}f.test{}'.format(auth, path), 'where': where, 'byte': byte,
            'listing': rng.random() < 0.3, 'login': login}


def check_injection(case, part):
    script = ftpsim.FTPScript()
    res = run_session(case['url'], script, listing=case['listing'], login=case['login'])
    part.evaluations += 1
    replay = case
    if 'control' not in res:
        part.count('url_rejected_before_connecting')
        return
    if (res.get('error') or '').startswith('ValueError-at-request'):
        part.count('url_rejected_before_connecting')
        return
    control = res['control']
    part.count('control_writes_observed', len(control.commands))
    cls = 'line-break' if case['byte'] in (10, 13) or '%0D' in case['url'].upper() or '%0A' in case['url'].upper() \
        else ('nul' if case['byte'] == 0 or '%00' in case['url'] else 'other-byte')
    part.nontrivial_case('{}/{}/{}'.format(case['where'], case['byte'], case['listing']))
    verbs = []
    for raw in control.commands:
        if not LINE_RE.match(raw):
            part.violation('control-write-is-not-one-command-line/{}/{}'.format(case['where'].replace('login-', ''), cls),
                           {'write': raw[:200], 'url': case['url'], 'login': case['login']}, replay)
            return
        verbs.append(raw.split(b' ', 1)[0].strip().decode())
    if sum(raw.count(b'\n') for raw in control.commands) != len(control.commands):
        part.violation('more-lines-than-commands', {'writes': [c[:80] for c in control.commands]}, replay)
    expected = EXPECTED_LIST if case['listing'] else EXPECTED
    if not is_subsequence_prefix(verbs, expected):
        part.violation('unexpected-command-sequence/' + cls, {'verbs': verbs, 'expected': expected, 'url': case['url']}, replay)
    else:
        part.count('conversations_well_formed')


def is_subsequence_prefix(verbs, expected):
    # the observed verbs must be obtainable from a prefix of `expected` by deleting elements (MLSD may be absent etc.)
    i = 0
    for v in verbs:
        while i < len(expected) and expected[i] != v:
            i += 1
        if i == len(expected):
            return False
        i += 1
    return True


# ------------------------------------------------------------------------------------------ B: replies
def gen_reply(rng):
    code = rng.choice([200, 213, 220, 226, 227, 230, 331, 150, 550, 421, 0, 1, 99, 100, 599, 999])
    kind = rng.choice(['single', 'single', 'multi', 'multi-indented', 'multi-coded', 'lf-only', 'multi-digit-lines', 'multi-other-code'])
    words = ['ok', 'File status', 'Entering Passive Mode (127,0,3,9,156,65)', 'done.', 'transfer complete', 'é ü', '']
    # reply text is arbitrary bytes: sometimes the whole reply is sent in Latin-1 (not valid UTF-8), on any of its lines
    enc = 'latin-1' if rng.random() < 0.25 else 'utf-8'
    hi = ['caf\xe9', '\xff\xfe', 'Willkommen bei \xfcber', '\x80'] if enc == 'latin-1' else []
    words = words + hi
    if enc == 'utf-8':
        # characters that end a line for str.splitlines() but not on the wire, and non-ASCII digits
        words = words + ['Welcome\x0c220 to the archive', 'a\x0bb', 'x\x1cy\x1dz\x1e', 'caf\u0085 next', 'line\u2028sep\u2029',
                         '\uff12\uff12\uff10 fullwidth']
    if kind == 'single':
        text = [rng.choice(words)]
        wire = ('%03d %s\r\n' % (code, text[0])).encode(enc)
    elif kind == 'lf-only':
        text = [rng.choice(words)]
        wire = ('%03d %s\n' % (code, text[0])).encode(enc)
    else:
        n = rng.randrange(1, 5)
        mids = []
        lines = ['%03d-%s' % (code, 'first line')]
        text = ['first line']
        for i in range(n):
            w = rng.choice(['features:', 'MLSD', 'UTF8', 'welcome to sim', 'quota: 10 of 20'] + hi + hi)
            if kind == 'multi-digit-lines':
                # un-prefixed continuation lines that merely begin with digits (byte counts, dates, user counts): only a
                # line made of this reply's code and a space ends the reply (RFC 959 4.2)
                w = rng.choice(['2048 bytes free', '2015-01-01 maintenance', '2260 of 10000 bytes were sent', '12 users online',
                                '1234567', '99', '2048', '226', '2260', '%03d' % code, '%03d0 x' % code, '%03d\tx' % code])
            elif kind == 'multi-other-code':
                other = rng.choice([c for c in (226, 150, 200, 421, 550) if c != code])
                w = rng.choice(['%d bytes sent' % other, '%d-odd' % other, '%d ' % other])
            if kind == 'multi-indented':
                lines.append(' ' + w)
                text.append(w)
            elif kind == 'multi-coded':
                lines.append('%03d-%s' % (code, w))
                text.append(w)
            else:
                lines.append(w)
                text.append(w)
        last = rng.choice(['end', 'done'] + hi)
        lines.append('%03d %s' % (code, last))
        text.append(last)
        wire = ('\r\n'.join(lines) + '\r\n').encode(enc)
    return {'code': code, 'kind': kind + ('/latin-1' if enc == 'latin-1' else ''), 'text_lines': text, 'wire': wire}


def reference_reply(wire):
    '''RFC 959 reply assembler: returns (code, [line texts without code prefixes of this reply's code]).'''
    lines = re.split(br'\r?\n', wire)
    if lines and lines[-1] == b'':
        lines.pop()
    m = re.match(br'^(\d{3})([ -])(.*)$', lines[0])
    code = int(m.group(1))
    texts = [m.group(3)]
    if m.group(2) == b'-':
        for ln in lines[1:]:
            mm = re.match(br'^(\d{3})([ -])(.*)$', ln)
            if mm and int(mm.group(1)) == code:
                texts.append(mm.group(3))
                if mm.group(2) == b' ':
                    break
            else:
                texts.append(ln)
    return code, [t.decode('utf-8', 'surrogateescape') for t in texts]


def read_replies(wire, pieces_list, eof_with_last=False):
    '''Feed `wire` under each segmentation to a real ControlStream.read_reply; returns list of outcomes.
    eof_with_last: the end of the stream arrives together with the last piece (the server closes right after its last
    word), before the client gets to read that piece.'''
    from wpull.network.connection import Connection
    from wpull.protocol.ftp.stream import ControlStream
    outs = []

    class OnePeer(netsim.Peer):
        def __init__(self, pieces):
            self.pieces = pieces

        def connection_made(self, conn):
            conn.spawn(self._go(conn))

        async def _go(self, conn):
            if eof_with_last:
                if await conn.feed_pieces(self.pieces[:-1]):
                    conn.feed(self.pieces[-1])
                    conn.feed_eof()
                return
            await conn.feed_pieces(self.pieces)
            conn.feed_eof()

    async def main():
        net = netsim.Net().install()
        try:
            for pieces in pieces_list:
                net.peers.clear()
                net.add_peer('127.0.3.1', 21, OnePeer(pieces))
                c = Connection(('127.0.3.1', 21))
                await c.connect()
                stream = ControlStream(c)
                try:
                    reply = await stream.read_reply()
                    outs.append((reply.code, reply.text, None))
                except Exception as e:
                    outs.append((None, None, type(e).__name__))
                c.close()
        finally:
            net.uninstall()
    netsim.run(main(), timeout=60)
    return outs


def check_reply(case, part, rng):
    wire = case['wire']
    n = len(wire)
    segs = [[wire], [wire[i:i + 1] for i in range(n)]]
    for c in range(1, n):
        segs.append([wire[:c], wire[c:]])
    for _ in range(3):
        pts = sorted(set(rng.randrange(1, n) for _ in range(rng.randrange(1, 5))))
        pieces, prev = [], 0
        for p in pts + [n]:
            pieces.append(wire[prev:p])
            prev = p
        segs.append(pieces)
    outs = read_replies(wire, segs)
    # the same segmentations on another schedule: the server's close is already known when the client reads the last piece
    outs += read_replies(wire, segs, eof_with_last=True)
    segs = segs + segs
    part.evaluations += len(outs)
    part.count('reply_reads', len(outs))
    part.nontrivial_case('reply/{}/{}/{}'.format(case['kind'], case['code'], len(case['text_lines'])))
    replay = dict(case, kind_of_case='reply')
    base = outs[0]
    for i, o in enumerate(outs[1:], 1):
        if o != base:
            part.violation('reply-depends-on-segmentation/' + case['kind'],
                           {'whole': base, 'segmented': o, 'pieces': [p for p in segs[i]][:6]}, replay)
            break
    else:
        part.count('replies_segmentation_independent')
    # a reply cut short by the peer (every strict prefix, then EOF) must never be returned as a reply
    prefixes = [[wire[:c]] for c in range(1, n)]
    if len(prefixes) > 40:
        prefixes = [prefixes[i] for i in sorted(set([0, 1, 2, 3, 4, n - 2, n - 3, n - 4] +
                                                   [rng.randrange(n - 1) for _ in range(30)])) if 0 <= i < len(prefixes)]
    pouts = read_replies(wire, prefixes)
    part.evaluations += len(pouts)
    part.count('truncated_reply_reads', len(pouts))
    for pieces, o in zip(prefixes, pouts):
        if o[2] is None:
            part.violation('truncated-reply-returned-as-reply/' + case['kind'],
                           {'fed': pieces[0][-60:], 'returned': [o[0], o[1]]}, replay)
            break
    else:
        part.count('truncated_replies_all_rejected')
    ref_code, ref_texts = reference_reply(wire)
    if base[2] is not None:
        part.violation('well-formed-reply-rejected/' + case['kind'], {'error': base[2], 'wire': wire}, replay)
    elif base[0] != ref_code:
        part.violation('reply-code-differs/' + case['kind'], {'got': base[0], 'want': ref_code}, replay)
    else:
        # leading white space of continuation lines is not significant
        got_lines = [ln.lstrip(' ') for ln in base[1].split('\r\n')]
        ref_texts = [ln.lstrip(' ') for ln in ref_texts]
        if case['kind'].split('/')[0] in ('multi-digit-lines', 'multi-other-code'):
            # how much of a digit prefix of a continuation line is kept in the text is not part of the statement: only
            # the number of lines is compared for these shapes
            got_lines = len(got_lines)
            ref_texts = len(ref_texts)
        if got_lines != ref_texts:
            part.violation('reply-text-differs/' + case['kind'], {'got': got_lines, 'want': ref_texts}, replay)
        else:
            part.count('replies_equal_reference')


def check_overlong(case, part, rng):
    '''A multi-line reply one of whose inner lines is longer than the line limit of the control stream (64 KiB) and ends
    in text that would read as the reply's closing line.  Whether such a reply is refused or accepted is a documented
    limit, not part of the statement; that the outcome is the same however the bytes are cut is.'''
    code = case['code']
    pad = case['pad']
    long_line = b'x' * pad + ('%03d early end' % code).encode()
    wire = ('%03d-Welcome\r\n' % code).encode() + long_line + b'\r\n still inside\r\n' + ('%03d Real end\r\n' % code).encode()
    start = len('%03d-Welcome\r\n' % code)
    lf = start + len(long_line) + 1
    cuts = sorted(set(c for c in (start + pad, start + pad - 1, start + 65536, start + 65537, start + 65535, lf, lf - 1, lf + 1,
                                 start, start + 1, start + pad // 2) if 0 < c < len(wire)))
    segs = [[wire]] + [[wire[:c], wire[c:]] for c in cuts]
    for size in (4096, 16384, 65536, rng.randrange(1000, 70000)):
        segs.append([wire[i:i + size] for i in range(0, len(wire), size)])
    outs = read_replies(wire, segs) + read_replies(wire, segs, eof_with_last=True)
    segs = segs + segs
    part.evaluations += len(outs)
    part.count('overlong_reply_reads', len(outs))
    part.nontrivial_case('reply/overlong/{}/{}'.format(code, 'over' if pad + 13 > 65536 else 'under'))
    replay = dict(case, kind_of_case='overlong')
    for i, o in enumerate(outs[1:], 1):
        if o != outs[0]:
            part.violation('reply-depends-on-segmentation/overlong-line',
                           {'whole': outs[0], 'segmented': o, 'piece_lengths': [len(p) for p in segs[i]][:8]}, replay)
            break
    else:
        part.count('overlong_replies_segmentation_independent')


# ------------------------------------------------------------------------------------------ C: completion
def check_completion(case, part):
    from wpull.errors import NetworkError, ProtocolError, ServerError
    script = ftpsim.FTPScript()
    script.ending = case['ending']
    if case.get('error_reply'):
        script.error_final_reply = (case['error_reply'] + '\r\n').encode()
    script.data = case['data']
    seg = case['segmentation']
    if seg == 'bytes':
        script.segment = lambda b: [b[i:i + 1] for i in range(len(b))]
    elif seg == 'halves':
        script.segment = lambda b: [b[:len(b) // 2], b[len(b) // 2:]]
    if case['ending'] in ('eof_first', 'reply_first'):
        case['duration_timeout'] = None        # (a wall-clock limit on a transfer that completes would make the verdict depend on load)
    res = run_session('ftp://f.test/dir/file.bin', script, rate_limited=case.get('rate_limited', False),
                      duration_timeout=case.get('duration_timeout'))
    if case.get('duration_timeout'):
        part.count('transfers_with_a_time_limit')
    part.evaluations += 1
    part.count('transfer_endings_' + case['ending'])
    if case.get('rate_limited'):
        part.count('transfers_with_a_bandwidth_limiter')
    replay = case
    events = res['control'].events
    part.nontrivial_case('completion/{}/{}/{}/{}'.format(case['ending'], seg, len(case['data']),
                                                         (case.get('error_reply') or '')[:3] if case['ending'] == 'error_final' else ''))
    returned = 'download-returned' in events
    if case['ending'] in ('eof_first', 'reply_first'):
        if res['error'] is not None:
            part.violation('complete-transfer-reported-as-error/' + case['ending'], {'error': res['error'], 'events': events}, replay)
            return
        idx = events.index('download-returned')
        if 'data-eof' not in events[:idx] or 'final-reply-fed' not in events[:idx]:
            part.violation('download-returned-before-transfer-confirmed/' + case['ending'], {'events': events}, replay)
        elif res['body'] != b''.join(case['data']):
            part.violation('transfer-body-differs', {'got': len(res['body'])}, replay)
        else:
            part.count('complete_transfers_confirmed')
    else:
        if returned and res['error'] is None:
            part.violation('download-returned-normally-without-confirmation/' + case['ending'], {'events': events}, replay)
        elif res['error'] == 'STALL' and case['ending'] == 'no_eof':
            part.count('transfer_without_eof_keeps_waiting')
        elif res['error'] == 'STALL' and case['ending'] == 'error_final' and case.get('error_reply') in ('226', '2260 x'):
            # not a complete reply yet (no "code space" line): the client rightly keeps reading
            part.count('transfer_with_incomplete_closing_reply_keeps_waiting')
        elif res['error'] in (None, 'STALL'):
            part.violation('unconfirmed-transfer-outcome/' + case['ending'], {'error': res['error'], 'events': events}, replay)
        elif not isinstance(res.get('error_obj'), (NetworkError, ProtocolError, ServerError)):
            part.violation('unconfirmed-transfer-wrong-error/' + str(res['error']), {'events': events}, replay)
        else:
            part.count('unconfirmed_transfers_reported_as_error')


def worker(job):
    import compat
    compat.install()
    import logging
    logging.disable(logging.CRITICAL)
    import warnings
    warnings.simplefilter('ignore')
    part = common.Part()
    rng = random.Random(job['seed'])
    if 'replay' in job:
        rp = common.unjson(job['replay'])
        if rp.get('kind') == 'injection':
            check_injection(rp, part)
        elif rp.get('kind_of_case') == 'reply':
            check_reply(rp, part, rng)
        elif rp.get('kind_of_case') == 'overlong':
            check_overlong(rp, part, rng)
        else:
            check_completion(rp, part)
        return part.dump()
    for n in range(job['n_injection']):
        case = gen_injection_case(rng)
        check_injection(case, part)
        if n % 97 == 0:
            part.sample(case)
    for n in range(job['n_reply']):
        check_reply(gen_reply(rng), part, rng)
    for n in range(max(1, job['n_reply'] // 40)):
        check_overlong({'code': rng.choice([220, 230, 200, 226]),
                        'pad': rng.choice([65536 - 20, 65536 - 13, 65536, 66000, 70000, 131072 + 5, rng.randrange(60000, 140000)])}, part, rng)
    for n in range(job['n_completion']):
        # (the reply after the data connection closed: only 226 confirms the transfer; other replies - also positive ones
        # such as 225 'no transfer in progress', 221 'goodbye', 200, 211 - do not)
        case = {'rate_limited': rng.random() < 0.3, 'duration_timeout': rng.choice([None, None, 0.1]),
                'ending': rng.choice(['eof_first', 'reply_first', 'missing_final', 'error_final', 'error_final', 'no_eof', 'partial_final']),
                'error_reply': rng.choice(['451 aborted', '426 Connection closed; transfer aborted', '550 failed', '225 no transfer in progress',
                                           '221 Goodbye', '200 ok', '211 status', '125 starting', '150 again', '332 need account',
                                           '226', '2260 x']),
                'data': [bytes(rng.randrange(256) for _ in range(rng.randrange(0, 40))) for _ in range(rng.randrange(0, 4))],
                'segmentation': rng.choice(['whole', 'bytes', 'halves'])}
        check_completion(case, part)
    return part.dump()


def main():
    check = common.Check('C17')
    check.rule = ('(A) FTP URLs and configured logins with every byte value percent-encoded in path / user / password (plus CR LF '
                  'followed by injected verbs), file and listing sessions; (B) reply shapes (single, multi-line plain / indented / '
                  'code-prefixed, LF-only) under whole / single-byte / every single cut / random segmentation; (C) transfer endings '
                  '(data EOF before or after the 226, final reply missing, 451 instead of 226, data never closed) x reply segmentations. '
                  'distinct_nontrivial = distinct (position, byte value, session kind) + reply shapes + ending classes')
    target = 'checks.c17_ftp:worker'
    if check.args.replay:
        with open(check.args.replay) as f:
            rp = json.load(f)
        res = par.run_jobs(target, [{'seed': 0, 'replay': rp['replay']}], 1, timeout=120)
    else:
        scale = check.scale * (40 if check.thorough else 3)
        nj = check.jobs * (4 if check.thorough else 1)
        jobs = [{'seed': check.seed * 1000003 + i, 'n_injection': int(9600 * scale) // nj, 'n_reply': int(480 * scale) // nj,
                 'n_completion': int(1600 * scale) // nj} for i in range(nj)]
        res = par.run_jobs(target, jobs, check.jobs, timeout=7200 if check.thorough else 900)
    for r in res:
        if '_error' in r:
            check.note_inconclusive('worker: ' + r['_error'] + ' ' + r.get('_stderr', '')[-400:])
        else:
            check.merge(r)
    check.finish(required_counters=() if check.args.replay else (
        'control_writes_observed', 'conversations_well_formed', 'replies_equal_reference',
        'complete_transfers_confirmed', 'unconfirmed_transfers_reported_as_error'))


if __name__ == '__main__':
    main()
