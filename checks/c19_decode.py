'''C19 - streaming content decoding equals one-shot decoding for every split.

Monitor: the real GzipDecompressor / DeflateDecompressor (and, second workload, the real
HTTP Stream.read_body over a scripted in-memory peer) are fed generated encodings under many
splits; the concatenated output is compared with a strict independent one-shot decode.
'''
import json
import random
import zlib

from harness import common, par


class RefError(Exception):
    pass


def ref_inflate(body, wbits):
    d = zlib.decompressobj(wbits)
    try:
        out = d.decompress(body)
        out += d.flush()
    except zlib.error as e:
        raise RefError(str(e))
    if not d.eof:
        raise RefError('incomplete stream')
    return out


def ref_decode(body, coding):
    '''Strict one-shot reference.'''
    if coding == 'identity':
        return body
    if coding == 'gzip':
        if body[:1] != b'\x1f':
            return body          # documented: not gzip magic -> bytes unchanged
        return ref_inflate(body, 16 + zlib.MAX_WBITS)
    if coding == 'deflate':
        try:
            return ref_inflate(body, zlib.MAX_WBITS)
        except RefError:
            return ref_inflate(body, -zlib.MAX_WBITS)
    raise AssertionError(coding)


BIG = 1 << 20


def make_payload(rng, big=0.004):
    if rng.random() < big:
        # large, extremely compressible payloads: one input piece inflates to more than a mebibyte (decoders that cap
        # the output of a single call must not lose the input they did not get to)
        n = rng.choice([BIG - 1, BIG, BIG + 1, 2 * BIG + 17, 3 * BIG, 9 * BIG])
        unit = rng.choice([b'\x00', b'ab', b'The quick brown fox. '])
        return (unit * (n // len(unit) + 1))[:n]
    kind = rng.randrange(7)
    if kind == 0:
        return b''
    if kind == 1:
        return bytes([rng.randrange(256)])
    if kind == 2:
        return (b'The quick brown fox jumps over the lazy dog. ' * rng.randrange(1, 40))[:rng.randrange(1, 1500)]
    if kind == 3:
        return bytes(rng.randrange(256) for _ in range(rng.randrange(2, 600)))
    if kind == 4:
        return bytes(rng.choice(b'ab') for _ in range(rng.randrange(2, 3000)))
    if kind == 5:
        return b'\x1f\x8b' + bytes(rng.randrange(256) for _ in range(rng.randrange(0, 40)))
    return b'<html>' + b''.join(b'<a href="/p%d">x</a>' % rng.randrange(1000) for _ in range(rng.randrange(1, 60)))


def encode(rng, payload, form):
    level = rng.randrange(0, 10)
    strategy = rng.choice([zlib.Z_DEFAULT_STRATEGY, zlib.Z_FILTERED, zlib.Z_HUFFMAN_ONLY, zlib.Z_RLE, zlib.Z_FIXED])
    mem = rng.choice([1, 5, 8, 9])
    w = rng.choice([9, 10, 12, 15, 15])
    if form == 'gzip':
        c = zlib.compressobj(level, zlib.DEFLATED, 16 + w, mem, strategy)
    elif form == 'zlib':
        c = zlib.compressobj(level, zlib.DEFLATED, w, mem, strategy)
    else:
        c = zlib.compressobj(level, zlib.DEFLATED, -w, mem, strategy)
    out = b''
    pos = 0
    while pos < len(payload):
        n = rng.choice([1, 7, 100, 4096, len(payload)])
        out += c.compress(payload[pos:pos + n])
        pos += n
        if rng.random() < 0.1:
            out += c.flush(rng.choice([zlib.Z_SYNC_FLUSH, zlib.Z_FULL_FLUSH]))
    out += c.flush()
    return out, {'form': form, 'level': level, 'strategy': strategy, 'wbits': w, 'mem': mem}


def crafted_raw_with_zlib_header():
    '''Valid raw deflate whose first two bytes pass the zlib header check (stored block with
    non-zero padding bits): 78 01 | LEN=0x0001 NLEN | data | final empty stored block.'''
    # byte0 = 0x78: BFINAL=0, BTYPE=00, padding 01111 ; LEN = 0x0001 -> bytes 01 00, NLEN = FE FF
    return bytes([0x78, 0x01, 0x00, 0xfe, 0xff, 0x41, 0x01, 0x00, 0x00, 0xff, 0xff])


def splits_for(rng, n, exhaustive_limit, thorough):
    '''Yield lists of cut positions (sorted, within 1..n-1).'''
    if n <= 1:
        yield []
        return
    yield []
    yield list(range(1, n))            # all single bytes
    if n <= exhaustive_limit:
        for c in range(1, n):
            yield [c]
    else:
        for c in (1, 2, 3, 4, 9, 10, 11, n - 1, n - 2, n - 4, n - 8, n - 9, n // 2):
            if 0 < c < n:
                yield [c]
    for first in (1, 2, 3):
        if first < n:
            rest = sorted(set(rng.randrange(first, n) for _ in range(rng.randrange(0, 4))) - {first})
            yield [first] + rest
    for _ in range(6 if thorough else 3):
        k = rng.randrange(1, min(n, 12))
        yield sorted(set(rng.randrange(1, n) for _ in range(k)))


def run_split(cls, body, cuts):
    d = cls()
    out = []
    prev = 0
    for c in list(cuts) + [len(body)]:
        piece = body[prev:c]
        prev = c
        if piece:
            out.append(d.decompress(piece))
    out.append(d.flush())
    return b''.join(out)


def first_piece_class(cuts, n):
    if not cuts:
        return 'whole'
    return 'first%d' % cuts[0] if cuts[0] <= 3 else 'firstN'


def check_body(classes, coding, body, meta, rng, part, exhaustive_limit, thorough, kind, self_reference=False):
    cls = classes[coding]
    if self_reference:
        # what the one-shot result should be is not fixed from outside (members after the first): the decoder's own
        # result for the undivided body is the reference for every split of it
        try:
            expected, ref_err = run_split(cls, body, []), None
        except zlib.error as e:
            expected, ref_err = None, str(e)
    else:
        try:
            expected = ref_decode(body, coding)
            ref_err = None
        except RefError as e:
            expected = None
            ref_err = str(e)
    n = len(body)
    for cuts in splits_for(rng, n, exhaustive_limit, thorough):
        part.evaluations += 1
        part.count('splits_' + kind)
        fp = first_piece_class(cuts, n)
        part.nontrivial_case('{}/{}/{}/{}'.format(coding, meta.get('form'), kind, fp) + '/' +
                             str(meta.get('level')) + '/' + str(min(len(cuts), 5)))
        replay = {'coding': coding, 'body': body, 'cuts': cuts, 'kind': kind, 'self_reference': self_reference}
        try:
            got = run_split(cls, body, cuts)
            err = None
        except zlib.error as e:
            got = None
            err = str(e)
        except Exception as e:
            part.violation('decoder-raised-{}/{}'.format(type(e).__name__, coding),
                           {'error': repr(e), 'meta': meta, 'cuts': cuts[:8]}, replay)
            continue
        if expected is not None:
            if err is not None:
                sub = meta.get('form')
                if sub == 'raw-with-zlib-looking-header' and cuts and err:
                    fp = 'split-after-header-accepted'
                part.violation('valid-body-rejected/{}/{}/{}'.format(coding, sub, fp),
                               {'error': err, 'meta': meta, 'cuts': cuts[:8], 'body_len': n}, replay)
            elif got != expected:
                part.violation('split-output-differs/{}/{}/{}'.format(coding, meta.get('form'), fp),
                               {'meta': meta, 'cuts': cuts[:8], 'got_len': len(got),
                                'expected_len': len(expected)}, replay)
            else:
                part.count('equal_to_oneshot')
        else:
            if err is None:
                part.violation('{}-accepted/{}/{}'.format(kind, coding, meta.get('form')),
                               {'meta': meta, 'cuts': cuts[:8], 'body_len': n, 'got_len': len(got),
                                'reference_error': ref_err}, replay)
            else:
                part.count('error_reported_' + kind)


def stream_workload(rng, part, n_sequences):
    '''Second workload: the real HTTP Stream.read_body decodes several responses in a row on ONE Stream object
    (keep-alive), each under its own segmentation; corrupt / truncated coded bodies must raise ProtocolError.'''
    import asyncio
    import io
    from harness import netsim
    from wpull.network.connection import Connection
    from wpull.protocol.http.stream import Stream
    from wpull.protocol.http.request import Request
    from wpull.errors import ProtocolError, NetworkError

    for _ in range(n_sequences):
        k = rng.choice([1, 2, 3, 4])
        specs = []
        for i in range(k):
            payload = make_payload(rng, big=0.008)
            form = rng.choice(['gzip', 'zlib', 'raw', 'identity', 'identity'])
            if len(payload) >= BIG - 1:
                form = rng.choice(['gzip', 'gzip', 'zlib', 'raw'])
            damage = None
            if form == 'identity':
                body, header = payload, None
            else:
                body, meta = encode(rng, payload, form)
                header = 'gzip' if form == 'gzip' else 'deflate'
                if i == k - 1 and rng.random() < 0.3 and len(body) > 4:
                    damage = rng.choice(['truncate', 'flip'])
                    if damage == 'truncate':
                        body = body[:rng.randrange(1, len(body))]
                    else:
                        b = bytearray(body)
                        b[rng.randrange(len(b))] ^= 1 << rng.randrange(8)
                        body = bytes(b)
            framing = rng.choice(['length', 'length', 'chunked', 'chunked'])
            if framing == 'length':
                head = b'HTTP/1.1 200 OK\r\nContent-Length: ' + str(len(body)).encode() + b'\r\n'
                framed = body
            else:
                # chunked transfer coding around the coded body; chunk boundaries at the places where a decoder can only
                # buffer (inside the 10-byte gzip header, after the first byte or two of a deflate stream)
                head = b'HTTP/1.1 200 OK\r\nTransfer-Encoding: chunked\r\n'
                sizes = rng.choice([[1, 1, 1, 8], [10], [2], [3, 7], [rng.randrange(1, 40) for _ in range(6)], [len(body) or 1]])
                framed, pos, si = b'', 0, 0
                while pos < len(body):
                    sz = sizes[si] if si < len(sizes) else rng.choice([1, 5, 64, 1000, 5000])
                    si += 1
                    chunk = body[pos:pos + sz]
                    pos += len(chunk)
                    framed += ('%x' % len(chunk)).encode() + b'\r\n' + chunk + b'\r\n'
                framed += b'0\r\n\r\n'
            if header and not (form != 'identity' and rng.random() < 0.0):
                head += b'Content-Encoding: ' + header.encode() + b'\r\n'
            wire = head + b'\r\n' + framed
            if framing == 'length' and i == k - 1 and damage is None and rng.random() < 0.25:
                # surplus bytes after a length-delimited coded body, arriving with its last bytes: the body is still decoded
                # to its end (and a truncated one still reported)
                wire += rng.choice([b'\r\n', b'X', b'\n\n<!-- trailing -->'])
                framing = 'length+surplus'
            n = len(wire)
            cuts = sorted(set(rng.randrange(1, n) for _ in range(rng.choice([0, 1, 3, 8]))))
            hb = len(head) + 2
            if rng.random() < 0.3:
                # cuts right inside the first bytes of the framed body
                cuts = sorted(set(cuts + [hb + c for c in rng.sample(range(1, 16), 3) if hb + c < n]))
            if rng.random() < 0.2 and n < 20000:
                cuts = list(range(1, n))
            pieces, prev = [], 0
            for c in cuts + [n]:
                pieces.append(wire[prev:c])
                prev = c
            specs.append({'payload': payload, 'form': form, 'coding': header, 'body': body, 'pieces': pieces, 'damage': damage,
                          'framing': framing})
        results = []
        # the file argument of read_body() is optional (bodies of intermediate responses are consumed without one): the
        # body is framed, decoded and checked all the same
        no_file = rng.random() < 0.2

        async def main():
            net = netsim.Net().install()
            try:
                peer = netsim.HTTPScriptPeer([{'pieces': sp['pieces'], 'then': 'keep'} for sp in specs])
                net.add_peer('127.0.0.1', 80, peer)
                conn = Connection(('127.0.0.1', 80))
                await conn.connect()
                stream = Stream(conn, keep_alive=True)
                for sp in specs:
                    request = Request('http://h.test/x')
                    buf = io.BytesIO()
                    try:
                        await stream.write_request(request)
                        response = await stream.read_response()
                        await stream.read_body(request, response, file=None if no_file else buf)
                        results.append((None, buf.getvalue()))
                    except Exception as e:
                        results.append((e, buf.getvalue()))
                        break
                conn.close()
            finally:
                net.uninstall()
        netsim.run(main(), timeout=60)
        for i, (sp, (exc, got)) in enumerate(zip(specs, results)):
            part.evaluations += 1
            part.count('stream_bodies_read')
            replay = {'stream_sequence': [{'form': x['form'], 'damage': x['damage'], 'body': x['body'],
                                           'pieces': x['pieces'], 'payload_len': len(x['payload'])} for x in specs], 'index': i}
            prev_form = specs[i - 1]['form'] if i else 'none'
            part.nontrivial_case('stream/{}/{}/after-{}/{}/{}'.format(sp['form'], sp['framing'], prev_form, sp['damage'],
                                                                      min(len(sp['pieces']), 9)))
            part.count('stream_bodies_' + sp['framing'])
            if len(sp['payload']) >= BIG:
                part.count('stream_bodies_over_1MiB')
            try:
                expected = ref_decode(sp['body'], sp['coding'] or 'identity')
                ref_err = None
            except RefError as e:
                expected, ref_err = None, str(e)
            if ref_err is None:
                if exc is not None:
                    part.violation('stream-valid-body-rejected/{}/after-{}{}'.format(sp['form'], prev_form,
                                                                                        '/chunked' if sp['framing'] == 'chunked' else ''),
                                   {'error': repr(exc)[:200], 'position': i}, replay)
                elif no_file:
                    part.count('stream_bodies_read_without_a_file')
                elif got != expected:
                    part.violation('stream-body-differs/{}/after-{}'.format(sp['form'], prev_form),
                                   {'got_len': len(got), 'want_len': len(expected), 'position': i}, replay)
                else:
                    part.count('stream_bodies_equal_to_oneshot')
            else:
                if no_file:
                    part.count('stream_bad_bodies_read_without_a_file')
                if exc is None:
                    part.violation('stream-{}-body-accepted/{}{}'.format(sp['damage'] or 'bad', sp['form'], '/no-file' if no_file else ''),
                                   {'got_len': len(got), 'reference_error': ref_err}, replay)
                elif not isinstance(exc, (ProtocolError, NetworkError)):
                    part.violation('stream-wrong-error-kind/{}'.format(type(exc).__name__), {'error': repr(exc)[:200]}, replay)
                else:
                    part.count('stream_bad_bodies_reported_as_protocol_error')


def worker(job):
    import compat
    compat.install()
    import wpull.decompression as wd

    class Identity(object):
        def decompress(self, v):
            return v

        def flush(self):
            return b''
    classes = {'gzip': wd.GzipDecompressor, 'deflate': wd.DeflateDecompressor, 'identity': Identity}
    part = common.Part()
    rng = random.Random(job['seed'])
    thorough = job.get('thorough', False)
    if 'replay' in job:
        rp = common.unjson(job['replay'])
        if 'stream_sequence' in rp:
            part.sample({'note': 'stream sequences are replayed by re-running the seed; the recorded sequence follows',
                         'sequence': [{k: (v if not isinstance(v, bytes) else v[:60]) for k, v in x.items() if k != 'pieces'}
                                      for x in rp['stream_sequence']]})
            part.evaluations += 1
            return part.dump()
        check_body(classes, rp['coding'], rp['body'], {'form': 'replay'}, rng, part, 0, False, rp.get('kind', 'valid'),
                   self_reference=rp.get('self_reference', False))
        # and the exact split
        try:
            got = run_split(classes[rp['coding']], rp['body'], rp['cuts'])
            part.sample({'replayed_output_len': len(got)})
        except Exception as e:
            part.sample({'replayed_error': repr(e)})
        return part.dump()
    for i in range(job['n']):
        payload = make_payload(rng)
        form = rng.choice(['gzip', 'zlib', 'raw', 'identity-as-gzip'])
        if len(payload) >= BIG - 1:
            form = rng.choice(['gzip', 'gzip', 'zlib', 'raw'])
            part.count('payloads_of_a_mebibyte_or_more')
        if form == 'identity-as-gzip':
            body, meta = payload, {'form': 'identity'}
            if body[:1] == b'\x1f':
                continue
            coding = 'gzip'
        else:
            body, meta = encode(rng, payload, form)
            coding = 'gzip' if form == 'gzip' else 'deflate'
        small = len(body) <= job['exhaustive_limit']
        check_body(classes, coding, body, meta, rng, part, job['exhaustive_limit'], thorough, 'valid')
        if i % 50 == 0:
            part.sample({'coding': coding, 'meta': meta, 'payload_len': len(payload), 'encoded_len': len(body)})
        if form == 'gzip' and i % 5 == 0 and len(payload) < BIG - 1:
            # several gzip members in a row (RFC 1952 2.2), the last one possibly cut short or followed by other bytes:
            # whatever a decoder makes of the members after the first, it must make the same of them for every split
            multi = body
            for _ in range(rng.choice([1, 2, 2, 3])):
                more, _m = encode(rng, make_payload(rng, big=0)[:rng.choice([0, 5, 300, 5000])], 'gzip')
                multi += more
            tail = rng.choice(['', '', 'cut', 'garbage', 'zeros'])
            if tail == 'cut':
                multi = multi[:len(multi) - rng.randrange(1, min(12, len(more)))]
            elif tail == 'garbage':
                multi += bytes(rng.randrange(256) for _ in range(rng.randrange(1, 20)))
            elif tail == 'zeros':
                multi += b'\x00' * rng.randrange(1, 600)
            part.count('bodies_of_several_gzip_members')
            check_body(classes, 'gzip', multi, dict(meta, form='gzip-multi-member' + ('-' + tail if tail else '')), rng, part,
                       job['exhaustive_limit'], thorough, 'valid', self_reference=True)
        if form == 'identity-as-gzip' or len(payload) >= BIG - 1:
            continue
        # truncated: every strict non-empty prefix of small encodings, sampled prefixes of large ones
        if small:
            prefixes = range(1, len(body))
        else:
            prefixes = sorted(set([1, 2, 3, 10, len(body) - 1, len(body) - 4, len(body) - 8, len(body) // 2] +
                                  [rng.randrange(1, len(body)) for _ in range(4)]))
        for p in prefixes:
            if 0 < p < len(body):
                check_body(classes, coding, body[:p], meta, rng, part, 0, False, 'truncated')
        # corrupt: bit flips
        for _ in range(6 if small else 3):
            pos = rng.randrange(len(body))
            mutated = bytearray(body)
            mutated[pos] ^= 1 << rng.randrange(8)
            mutated = bytes(mutated)
            if coding == 'gzip' and mutated[:1] != b'\x1f':
                continue   # no longer labelled as gzip by the magic: identity by contract
            check_body(classes, coding, mutated, meta, rng, part, 0, False, 'corrupt')
    stream_workload(rng, part, job.get('n_stream', 0))
    # directed: raw deflate stream whose first bytes look like a zlib header
    body = crafted_raw_with_zlib_header()
    check_body(classes, 'deflate', body, {'form': 'raw-with-zlib-looking-header'}, rng, part, 64, False, 'valid')
    return part.dump()


def main():
    check = common.Check('C19')
    check.rule = ('payload classes x gzip/zlib/raw deflate (levels 0-9, 5 strategies, window 9-15, sync flushes) and '
                  'identity; splits: whole, all-1-byte, every single cut (small encodings), first piece 1/2/3 bytes, '
                  'random multi-cuts; truncated = every prefix of small encodings; corrupt = single bit flips. '
                  'distinct_nontrivial = distinct (coding, form, kind, first-piece class, level, #cuts)')
    check.assumptions = ['reference = strict one-shot zlib decode (eof required); for deflate: zlib wrapper else raw; '
                         'gzip label without gzip magic = identity (documented class contract)',
                         'a corrupt body that the strict reference still decodes must decode to the same bytes']
    target = 'checks.c19_decode:worker'
    if check.args.replay:
        with open(check.args.replay) as f:
            rp = json.load(f)
        res = par.run_jobs(target, [{'seed': 0, 'replay': rp['replay']}], 1)
    else:
        total = int((40000 if check.thorough else 4800) * check.scale)
        nj = check.jobs * (4 if check.thorough else 1)
        jobs = [{'seed': check.seed * 1000003 + i, 'n': max(1, total // nj), 'thorough': check.thorough,
                 'n_stream': (20000 if check.thorough else 4800) // nj,
                 'exhaustive_limit': 400 if check.thorough else 160} for i in range(nj)]
        res = par.run_jobs(target, jobs, check.jobs, timeout=7200 if check.thorough else 900)
    for r in res:
        if '_error' in r:
            check.note_inconclusive('worker: ' + r['_error'] + ' ' + r.get('_stderr', '')[-300:])
        else:
            check.merge(r)
    check.finish(required_counters=() if check.args.replay else (
        'equal_to_oneshot', 'splits_truncated', 'splits_corrupt', 'stream_bodies_equal_to_oneshot',
        'stream_bad_bodies_reported_as_protocol_error'))


if __name__ == '__main__':
    main()
