'''C01 monitor B - a recursive FTP crawl retrieves every file of the tree exactly once.

The generated tree (harness as in C02 monitor C) sometimes has directories with more entries than any sampling window of
a listing parser (101, 150, 300 entries), in UNIX or MS-DOS listing style or MLSD.  Start URL = the root of the tree,
recursion without depth limit: the server's command log must show one served RETR for every file and at least one
served listing for every directory; every row of the URL table is final.
'''
import os
import random
import shutil
import tempfile

from harness import common


def gen_case(rng):
    return {'ftp_complete': True, 'tree_seed': rng.randrange(1 << 30), 'big': rng.choice([0, 0, 99, 100, 101, 102, 150, 300]),
            'mlsd': rng.random() < 0.3, 'listing_style': rng.choice(['unix', 'unix', 'msdos']), 'concurrent': rng.choice([1, 1, 3])}


def run_case(case, part):
    from checks import c02c_ftp
    from harness import ftpserver, servers, crawl
    rng = random.Random(case['tree_seed'])
    tree = c02c_ftp.gen_tree(rng)
    if case['big']:
        # one directory with very many entries
        names = ['entry%04d.dat' % i for i in range(case['big'])]
        tree['/pub/many/'] = names
        for n in names:
            tree['/pub/many/' + n] = n.encode()
        tree['/pub/'] = tree['/pub/'] + ['many/']
    addrs, port = servers.allocate_addresses(1, port=21)
    srv = ftpserver.FTPServer(tree, addrs[0], 21, mlsd=case['mlsd'], listing_style=case['listing_style']).start()
    tmp = tempfile.mkdtemp(prefix='vc01f')
    try:
        db = os.path.join(tmp, 'db')
        argv = ['ftp://f.test/pub/', '-r', '--level', 'inf', '--database', db, '-P', tmp, '--quiet', '--waitretry', '0', '--tries', '2',
                '--timeout', '10', '--no-robots', '--concurrent', str(case['concurrent'])]
        res = crawl.run_app(argv, {'f.test': addrs[0]})
        log = srv.snapshot()
        rows = crawl.read_table(db) if os.path.exists(db) else []
    finally:
        srv.stop()
        shutil.rmtree(tmp, ignore_errors=True)
    part.evaluations += 1
    part.count('ftp_complete_crawls')
    replay = case
    cls = '{}/{}'.format('mlsd' if case['mlsd'] else case['listing_style'], 'over-100-entries' if case['big'] > 100 else 'small-directories')
    if res['crashed'] or res['exit_status'] != 0:
        part.violation('ftp-crawl-did-not-exit-cleanly/' + cls, {'exit': res['exit_status'], 'exception': res['exception'], 'log': res['log'][-500:]}, replay)
        return
    files = sorted(p for p in tree if p.startswith('/pub/') and not p.endswith('/'))
    dirs = sorted(p for p in tree if p.startswith('/pub/') and p.endswith('/'))
    retrs = {}
    for e in log:
        if e['cmd'] == 'RETR' and e.get('served'):
            retrs[e['path']] = retrs.get(e['path'], 0) + 1
    listed = set((e['path'].rstrip('/') + '/') for e in log if e['cmd'] in ('LIST', 'MLSD') and e.get('served'))
    missing = [f for f in files if f not in retrs]
    twice = [f for f in files if retrs.get(f, 0) > 1]
    if missing:
        part.violation('ftp-file-never-retrieved/' + cls, {'missing': missing[:5], 'count': len(missing), 'directory_sizes': {d: len(tree[d]) for d in dirs if len(tree[d]) > 50}}, replay)
    elif twice:
        part.violation('ftp-file-retrieved-more-than-once/' + cls, {'files': twice[:5]}, replay)
    else:
        part.count('ftp_trees_retrieved_completely_once')
        part.count('ftp_files_retrieved_once', len(files))
    unlisted = [d for d in dirs if d not in listed]
    if unlisted:
        part.violation('ftp-directory-never-listed/' + cls, {'directories': unlisted[:5]}, replay)
    stuck = [r for r in rows if r['status'] not in ('done', 'skipped')]
    if stuck:
        part.violation('ftp-row-not-final/' + cls, {'rows': stuck[:3]}, replay)
    part.nontrivial_case('ftp-complete/{}/{}'.format(cls, case['big']))
