'''C13 monitor B - the application's pipeline series returns, also after a stop request and after pauses.

The real Application drives a PipelineSeries built the way Builder._build_pipelines() builds it: a start pipeline (one
item), the download pipeline (N items; the only member of concurrency_pipelines), two skippable pipelines (statistics,
link conversion) and the final stop pipeline (one item, never skipped).  External events on the controlled scheduler:
completions of the instrumented tasks, PipelineSeries.concurrency changes including 0 (how a plug-in pauses the crawl),
Application.stop() (what the first SIGINT does).

Verdicts (per schedule):
  * Application.run() returns - unless the crawl is left paused for good with work remaining and no stop was requested;
  * a stop request: run() returns, the items in flight at that moment are finished;
  * every item of every pipeline passes all tasks in order at most once; items of the pipelines that are never skipped
    (start, stop) exactly once; without a stop request all items of all pipelines exactly once;
  * the exit code is 0.
'''
import asyncio
import signal

from harness import common, sched


class SpinDetected(BaseException):
    pass


PIPELINES = ['start', 'download', 'stats', 'conversion', 'stop']


def gen_cfg(rng):
    cfg = {'app': True, 'items': rng.choice([0, 1, 2, 3, 5]), 'tasks': rng.choice([1, 2]), 'conc': rng.choice([1, 2, 3]),
           'conv_items': rng.choice([0, 1, 2]), 'stop': rng.random() < 0.5,
           'stop_from': rng.choice(['start', 'download', 'download', 'download', 'stats']),
           # interrupt signals (what Ctrl-C delivers) through the handlers the application installs: the first one asks for
           # a graceful stop - also when a stop was already requested by the program itself (--quota, a plug-in)
           'sigints': rng.choice([0, 0, 1, 1, 2])}
    if rng.random() < 0.6:
        ch = [rng.choice([0, 0, 1, 2, 3]) for _ in range(rng.choice([1, 2, 3]))]
        if ch[-1] == 0 and rng.random() < 0.4:
            ch.append(rng.choice([1, 2]))
        cfg['changes'] = ch
    return cfg


_FLAGS = []


def real_series_flags():
    if not _FLAGS:
        from wpull.application.options import AppArgumentParser
        from wpull.application.builder import Builder
        loop = asyncio.new_event_loop()
        asyncio.set_event_loop(loop)
        try:
            builder = Builder(AppArgumentParser().parse_args(['http://a.test/', '--quiet']), unit_test=True)
            builder.build()
            series = builder.factory['PipelineSeries']
            _FLAGS.extend((bool(p.skippable), p in series.concurrency_pipelines) for p in series.pipelines)
        finally:
            loop.close()
            asyncio.set_event_loop(None)
        assert len(_FLAGS) == len(PIPELINES), _FLAGS
    return _FLAGS


def run_one(cfg, chooser, max_steps=6000):
    from wpull.pipeline.pipeline import Pipeline, PipelineSeries, ItemSource, ItemTask
    from wpull.application.app import Application
    log = []
    state = {'stop_requested_at': None, 'in_flight_at_stop': None, 'conc': cfg['conc']}
    real = real_series_flags()        # (builds the real application once, on a loop of its own: before ours becomes current)
    loop = sched.new_loop(chooser, max_steps=max_steps)
    in_flight = set()

    class Source(ItemSource):
        def __init__(self, name, n):
            self.name, self.n, self.next = name, n, 0

        @asyncio.coroutine
        def get_item(self):
            if self.next < self.n:
                self.next += 1
                log.append(('supplied', self.name, self.next - 1, loop.steps))
                return (self.name, self.next - 1)
            return None
            yield

    class Task(ItemTask):
        def __init__(self, name, t, external):
            self.name, self.t, self.external = name, t, external

        @asyncio.coroutine
        def process(self, item):
            log.append(('start', self.name, self.t, item[1], loop.steps))
            in_flight.add((self.name, item[1]))
            if self.external:
                yield from loop.external_future('finish-%s-t%d-i%d' % (self.name, self.t, item[1]))
            log.append(('end', self.name, self.t, item[1], loop.steps))
            in_flight.discard((self.name, item[1]))

    counts = {'start': 1, 'download': cfg['items'], 'stats': 1, 'conversion': cfg['conv_items'], 'stop': 1}
    ntasks = {'start': 2, 'download': cfg['tasks'], 'stats': 1, 'conversion': 1, 'stop': 2}
    pipes = {}
    for name in PIPELINES:
        pipes[name] = Pipeline(Source(name, counts[name]),
                               [Task(name, t, external=(name in ('download', 'conversion') or t == 0)) for t in range(ntasks[name])])
    series = PipelineSeries([pipes[n] for n in PIPELINES])
    # which pipelines may be skipped once a stop was requested, and which follow the series' concurrency, is taken from
    # the series the real Builder makes (same five positions)
    for name, (skippable, follows) in zip(PIPELINES, real):
        pipes[name].skippable = skippable
        if follows:
            series.concurrency_pipelines.add(pipes[name])
    series.concurrency = cfg['conc']
    app = Application(series)
    handlers = {}
    forced = []
    loop.add_signal_handler = lambda sig, callback, *args: handlers.__setitem__(sig, callback)
    real_stop = loop.stop
    loop.stop = lambda: forced.append(loop.steps)          # (the forceful stop ends the event loop: recorded, not carried out)
    if cfg.get('sigints'):
        app.setup_signal_handlers()
    state['sigints_delivered'] = 0

    def make_sigint(k):
        def deliver():
            if app._state.value not in ('running', 'stopping') or main.done():
                return
            state['sigints_delivered'] += 1
            if state['stop_requested_at'] is None:
                state['stop_requested_at'] = len(log)
                state['in_flight_at_stop'] = sorted(in_flight)
                state['current_at_stop'] = next((n for n in PIPELINES if pipes[n] is app._current_pipeline), None)
            log.append(('sigint', k, loop.steps))
            handlers[signal.SIGINT]()
            if k + 1 < cfg['sigints']:
                loop.add_external('sigint#%d' % (k + 1), make_sigint(k + 1))
        return deliver

    def do_stop():
        if app._state.value != 'running':
            log.append(('stop_ignored', None, loop.steps))
            return
        state['stop_requested_at'] = len(log)
        state['in_flight_at_stop'] = sorted(in_flight)
        state['current_at_stop'] = next((n for n in PIPELINES if pipes[n] is app._current_pipeline), None)
        log.append(('stop_called', state['current_at_stop'], loop.steps))
        app.stop()

    changes = list(cfg.get('changes') or [])

    def make_change(i):
        def change(tries=[0]):
            # (a pause applies to a crawl that is running: setting the concurrency of a pipeline that has not started -
            # the start pipeline is still at work - is outside the property, see DESIGN 9 observations)
            if pipes['download']._state.value != 'running':
                tries[0] += 1
                if pipes['download']._state.value == 'stopped' and not any(ev[1] == 'download' for ev in log if ev[0] == 'supplied') \
                        and tries[0] < 8 and not main.done():
                    loop.add_external('conc=%d#%d' % (changes[i], i), change)
                return
            log.append(('concurrency', changes[i], loop.steps))
            series.concurrency = changes[i]
            state['conc'] = changes[i]
            if i + 1 < len(changes):
                loop.add_external('conc=%d#%d' % (changes[i + 1], i + 1), make_change(i + 1))
        return change

    def on_begin(pipeline):
        if cfg.get('stop') and pipeline is pipes[cfg.get('stop_from', 'start')]:
            loop.add_external('stop', do_stop)
        if cfg.get('sigints') and pipeline is pipes[cfg.get('stop_from', 'start')]:
            loop.add_external('sigint#0', make_sigint(0))
    app.event_dispatcher.add_listener(Application.Event.pipeline_begin, on_begin)

    async def main_wrapper():
        if changes:
            loop.add_external('conc=%d#0' % changes[0], make_change(0))
        return await app.run()

    main = loop.create_task(main_wrapper())
    obs = {'cfg': cfg, 'spin': False}

    def on_alarm(signum, frame):
        raise SpinDetected()
    signal.signal(signal.SIGALRM, on_alarm)
    signal.alarm(3)
    try:
        loop.run_to_quiescence()
    except SpinDetected:
        obs['spin'] = True
    finally:
        signal.alarm(0)
        loop.stop = real_stop
        obs['forced'] = list(forced)
        obs.update(quiescent=loop.quiescent, overrun=loop.overrun, steps=loop.steps, trace=list(loop.trace),
                   main_done=main.done(), log=log, state=state, counts=counts, ntasks=ntasks)
        if main.done():
            if main.cancelled():
                obs['main_exception'] = 'CancelledError'
            else:
                exc = main.exception()
                obs['main_exception'] = None if exc is None else type(exc).__name__ + ':' + str(exc)
                obs['exit_code'] = None if exc is not None else main.result()
        sched.close_loop(loop)
    return obs


def judge(obs, part, replay):
    cfg, log, state = obs['cfg'], obs['log'], obs['state']
    part.count('app_runs')
    stopped = state['stop_requested_at'] is not None
    paused_for_good = state['conc'] == 0
    cls = '{}{}'.format('stop' if stopped else 'no-stop', '/paused' if 0 in (cfg.get('changes') or []) else '')
    if stopped:
        part.count('app_runs_with_stop_during_' + str(state.get('current_at_stop')))
    if state.get('sigints_delivered'):
        part.count('app_runs_with_%d_interrupt_signals' % state['sigints_delivered'])
    if obs.get('forced'):
        if state.get('sigints_delivered', 0) <= 1:
            # one interrupt only: that is the graceful request, whatever else asked for a stop before
            part.violation('first-interrupt-signal-forces-the-stop/' + ('after-a-stop-request-by-the-program' if cfg.get('stop') else 'alone'),
                           {'cfg': cfg, 'log': log[-10:]}, replay)
        else:
            part.count('app_forced_stop_after_second_interrupt')
        return          # (a forced stop ends the event loop: nothing else is promised)
    if obs['spin'] or str(obs.get('main_exception') or '').startswith('SpinDetected'):
        part.violation('application-spins-without-yielding/' + cls, {'cfg': cfg, 'log': log[-12:]}, replay)
        return
    if obs['overrun']:
        part.inconclusive.append('step budget exhausted')
        return
    if not obs['main_done']:
        if paused_for_good and (not stopped or state.get('current_at_stop') != 'download'):
            part.count('app_left_paused_for_good')       # nothing has to return
        else:
            waiting_in = next((ev[1] for ev in reversed(log) if ev[0] in ('start', 'supplied')), None)
            part.violation('application-run-does-not-return/{}/last-activity-in-{}'.format(cls, waiting_in),
                           {'cfg': cfg, 'log': log[-14:], 'concurrency_at_end': state['conc']}, replay)
        return
    part.count('app_run_returned')
    if obs.get('main_exception'):
        part.violation('application-run-raised/' + obs['main_exception'].split(':')[0], {'cfg': cfg, 'error': obs['main_exception']}, replay)
        return
    if obs.get('exit_code') != 0:
        part.violation('application-exit-code', {'cfg': cfg, 'exit_code': obs.get('exit_code')}, replay)
    # items through tasks
    for name in PIPELINES:
        n, nt = obs['counts'][name], obs['ntasks'][name]
        for i in range(n):
            starts = [ev[2] for ev in log if ev[0] == 'start' and ev[1] == name and ev[3] == i]
            ends = [ev[2] for ev in log if ev[0] == 'end' and ev[1] == name and ev[3] == i]
            if starts != list(range(len(starts))) or len(set(starts)) != len(starts) or ends != starts[:len(ends)]:
                part.violation('item-not-through-tasks-in-order-once/' + name, {'cfg': cfg, 'item': i, 'starts': starts, 'ends': ends}, replay)
                continue
            complete = len(ends) == nt
            # (a stop request that reaches a pipeline before it took its item may leave that item unprocessed)
            must = (not stopped) or (name in ('start', 'stop') and name != state.get('current_at_stop')) or \
                (name, i) in [tuple(x) for x in (state['in_flight_at_stop'] or [])]
            if must and not complete:
                part.violation('item-not-processed/{}/{}'.format(name, cls), {'cfg': cfg, 'item': i, 'starts': starts, 'ends': ends}, replay)
            else:
                part.count('app_items_checked')
    if stopped:
        part.count('app_stop_returned')
        if state.get('current_at_stop') == 'start':
            # the stop request came before the crawl proper began: no download item may be taken afterwards
            taken = [ev for ev in log[state['stop_requested_at']:] if ev[0] == 'start' and ev[1] == 'download']
            if taken:
                part.violation('download-items-taken-after-stop-request/stop-during-start', {'cfg': cfg, 'taken': taken[:4]}, replay)
            else:
                part.count('app_stop_during_start_took_no_download_items')
    part.nontrivial_case('app/' + common.jhash([cfg, obs['trace'][:40]]))
