'''C07 - each CDX line addresses exactly the record it describes (oracle_c07).'''
from checks import warc_common

if __name__ == '__main__':
    warc_common.main(
        'C07',
        'C05 runs with cdx=True across compression, rollover into numbered files and appending; Content-Type varied '
        '(parameters, case, absent, garbage, leading space); each CDX line is resolved against the named file: the '
        'byte range must be exactly one gzip member / record whose URI, ID, payload digest, status and MIME equal the '
        'line. distinct_nontrivial = distinct (compression, file name, MIME, header class)',
        ('cdx_lines', 'cdx_ranges_confirmed', 'cdx_status_checked', 'cdx_mime_checked'))
