'''C16 monitor C - requests relayed by the crawler's own proxy server (--proxy-server; PhantomJS and youtube-dl fetch
through it) reach the origin they are addressed to, whole and alone.

A local client talks to the real HTTPProxyServer session (a stream reader fed by the harness, a capturing writer); the
session relays through the real HTTP client over simulated connections to two origins.  The client sends a POST with a
body for origin A and - without waiting, or after the reply - a GET for origin B that carries B's cookie and
credentials.  Oracle: A receives exactly one request, whose body is the bytes sent and nothing more; B receives exactly
its GET; nothing that belongs to B reaches A.
'''
import asyncio
import random

from harness import common, netsim

SIZES = [0, 1, 100, 4095, 4096, 4097, 5000, 8191, 8192, 8193, 9000, 12288, 20000]


def gen_case(rng):
    return {'relay': True, 'size': rng.choice(SIZES), 'pipelined': rng.random() < 0.7, 'second': rng.choice(['GET', 'GET', 'POST']),
            'seed': rng.randrange(1 << 30)}


class CaptureWriter(object):
    def __init__(self):
        self.data = bytearray()
        self.closed = False

    def write(self, data):
        self.data.extend(data)

    def writelines(self, lines):
        for line in lines:
            self.write(line)

    async def drain(self):
        await asyncio.sleep(0)

    def close(self):
        self.closed = True

    def get_extra_info(self, name, default=None):
        return default

    def can_write_eof(self):
        return False


def run_case(case, part):
    from wpull.network.pool import ConnectionPool
    from wpull.protocol.http.client import Client
    from wpull.proxy.server import HTTPProxyServer
    rng = random.Random(case['seed'])
    body = bytes(rng.choice(b'abcdefghijklmnopqrstuvwxyz') for _ in range(case['size']))
    ok = b'HTTP/1.1 200 OK\r\nContent-Length: 2\r\n\r\nok'
    b_cookie = 'sid=cookie-of-b-%06d' % rng.randrange(10 ** 6)
    b_auth = 'Basic Yi11c2VyOmItc2VjcmV0'
    first = ('POST http://a.test/upload HTTP/1.1\r\nHost: a.test\r\nContent-Type: application/octet-stream\r\nContent-Length: %d\r\n\r\n' % len(body)).encode() + body
    if case['second'] == 'GET':
        second = ('GET http://b.test/private HTTP/1.1\r\nHost: b.test\r\nCookie: %s\r\nAuthorization: %s\r\n\r\n' % (b_cookie, b_auth)).encode()
    else:
        second = ('POST http://b.test/form HTTP/1.1\r\nHost: b.test\r\nCookie: %s\r\nAuthorization: %s\r\nContent-Length: 3\r\n\r\nx=1' % (b_cookie, b_auth)).encode()
    result = {}

    async def main():
        net = netsim.Net().install()
        try:
            peer_a = netsim.HTTPScriptPeer([{'pieces': [ok], 'then': 'keep'} for _ in range(4)])
            peer_b = netsim.HTTPScriptPeer([{'pieces': [ok], 'then': 'keep'} for _ in range(4)])
            net.add_peer('127.0.5.1', 80, peer_a)
            net.add_peer('127.0.5.2', 80, peer_b)
            pool = ConnectionPool(resolver=netsim.StaticResolver({'a.test': '127.0.5.1', 'b.test': '127.0.5.2'}))
            http_client = Client(connection_pool=pool)
            proxy = HTTPProxyServer(http_client)
            reader = asyncio.StreamReader()
            writer = CaptureWriter()
            task = asyncio.ensure_future(proxy(reader, writer))
            if case['pipelined']:
                reader.feed_data(first + second)
            else:
                reader.feed_data(first)
                for _ in range(400):
                    await asyncio.sleep(0)
                    if bytes(writer.data).count(b'HTTP/1.1 200') >= 1:
                        break
                reader.feed_data(second)
            for _ in range(1500):
                await asyncio.sleep(0)
                if bytes(writer.data).count(b'HTTP/1.1 200') >= 2 or task.done():
                    break
            reader.feed_eof()
            for _ in range(200):
                await asyncio.sleep(0)
                if task.done():
                    break
            if not task.done():
                task.cancel()
                try:
                    await task
                except BaseException:
                    pass
            result['a'] = [raw for cid, raw in peer_a.requests]
            result['b'] = [raw for cid, raw in peer_b.requests]
            result['a_leftover'] = [bytes(buf) for buf in peer_a._buf.values() if buf]
            result['replies'] = bytes(writer.data).count(b'HTTP/1.1 200')
            try:
                http_client.close()
            except Exception:
                pass
        finally:
            net.uninstall()
    netsim.run(main(), timeout=60)
    part.evaluations += 1
    part.count('relayed_exchanges')
    cls = '{}/{}'.format('pipelined' if case['pipelined'] else 'sequential', 'body-%s' % ('0' if not case['size'] else 'over-4096' if case['size'] > 4096 else 'small'))
    part.nontrivial_case('relay/{}/{}/{}'.format(case['size'], case['pipelined'], case['second']))
    replay = case
    a, b = result.get('a', []), result.get('b', [])
    everything_at_a = b''.join(a) + b''.join(result.get('a_leftover', []))
    if b_cookie.encode() in everything_at_a or b_auth.encode() in everything_at_a or b'b.test' in everything_at_a:
        part.violation('request-for-one-origin-relayed-to-another/' + cls, {'origin_a_received': everything_at_a[-400:], 'size': case['size']}, replay)
        return
    if len(a) != 1 or result.get('a_leftover'):
        part.violation('relayed-request-count/' + cls, {'origin_a_requests': len(a), 'leftover': [x[:100] for x in result.get('a_leftover', [])], 'size': case['size']}, replay)
        return
    head, _, got_body = a[0].partition(b'\r\n\r\n')
    if got_body != body:
        part.violation('relayed-body-differs/' + cls, {'sent': len(body), 'received': len(got_body)}, replay)
        return
    if len(b) != 1 or b_cookie.encode() not in b[0]:
        part.violation('second-request-not-relayed-to-its-origin/' + cls, {'origin_b_requests': len(b), 'replies': result.get('replies')}, replay)
        return
    part.count('relayed_requests_reached_their_own_origin_whole')
