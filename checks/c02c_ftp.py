'''C02 monitor C - recursive FTP crawls stay inside the configured scope.

A loopback FTP server (harness.ftpserver) serves a generated directory tree and logs every command.  The crawler is
started on a directory, a file or a glob URL with recursion on/off, a depth limit and --no-parent.  Every LIST / MLSD
/ RETR path in the server log must belong to the set an independent model of the scope rules allows:
  start URL: depth 0;  entries of a listed directory: depth of the directory + 1;  a glob URL lists its directory and
  selects entries by pattern - selected files keep the depth of the glob URL, selected directories are one deeper;
  depth > 0 needs recursion and depth <= limit;  --no-parent keeps everything below the start directory.
'''
import fnmatch
import os
import random
import shutil
import tempfile

from harness import common


def gen_tree(rng):
    tree = {'/': []}

    def add_dir(path, depth):
        names = []
        for i in range(rng.choice([1, 2, 3])):
            n = rng.choice(['a', 'b', 'alpha', 'data', 'x', 'zeta', 'arch']) + str(i) + rng.choice(['.txt', '.bin', '.txt'])
            names.append(n)
            tree[path + n] = bytes(rng.randrange(256) for _ in range(rng.randrange(0, 60)))
        if depth < 3:
            for i in range(rng.choice([0, 1, 2, 2])):
                d = rng.choice(['alpha', 'arch', 'sub', 'pub', 'zz', 'a']) + str(i)
                names.append(d + '/')
                add_dir(path + d + '/', depth + 1)
        tree[path] = names
    tree['/'] = ['pub/', 'other/', 'top.txt']
    tree['/top.txt'] = b'top'
    add_dir('/pub/', 1)
    add_dir('/other/', 2)
    return tree


def gen_case(rng):
    return {'tree_seed': rng.randrange(1 << 30), 'start_kind': rng.choice(['dir', 'dir', 'file', 'glob', 'glob', 'glob-all', 'subdir']),
            'recursive': rng.random() < 0.7, 'level': rng.choice([0, 1, 1, 2, 3]), 'no_parent': rng.random() < 0.4,
            'mlsd': rng.random() < 0.3, 'listing_style': rng.choice(['unix', 'unix', 'msdos']), 'concurrent': rng.choice([1, 1, 3])}


def pick_start(rng, tree, kind):
    dirs = sorted(p for p in tree if p.endswith('/') and p.startswith('/pub/'))
    if kind == 'dir':
        return '/pub/', None
    if kind == 'subdir':
        return rng.choice(dirs), None
    d = rng.choice(dirs)
    names = tree[d]
    if kind == 'file':
        files = [n for n in names if not n.endswith('/')]
        return d + rng.choice(files), None
    if kind == 'glob-all':
        return d + '*', '*'
    first = rng.choice(names).rstrip('/')
    pattern = first[0] + '*'
    return d + pattern, pattern


def allowed_sets(tree, start, pattern, case):
    '''(listable directories, retrievable files) the scope rules allow - an upper bound for the server log.'''
    limit = case['level']           # 0 = unlimited
    recursive = case['recursive']
    start_dir = start if start.endswith('/') else start.rsplit('/', 1)[0] + '/'

    def depth_ok(depth):
        if depth == 0:
            return True
        return recursive and (limit == 0 or depth <= limit)

    def below_start(path):
        return not case['no_parent'] or path.startswith(start_dir)
    lists, files = set(), set()
    queue = []
    if pattern is not None:
        lists.add(start_dir)
        for n in tree.get(start_dir, []):
            if fnmatch.fnmatchcase(n.rstrip('/'), pattern):
                if n.endswith('/'):
                    queue.append((start_dir + n, 1))
                else:
                    files.add(start_dir + n)
    elif start.endswith('/'):
        queue.append((start, 0))
    else:
        files.add(start)
        lists.add(start_dir)      # (the client may look the file up in its directory's listing)
    while queue:
        d, depth = queue.pop()
        if not depth_ok(depth) or not below_start(d) or d not in tree:
            continue
        lists.add(d)
        for n in tree[d]:
            if n.endswith('/'):
                queue.append((d + n, depth + 1))
            elif depth_ok(depth + 1) and below_start(d + n):
                files.add(d + n)
    return lists, files


def run_case(case, part):
    from harness import ftpserver, servers, crawl
    rng = random.Random(case['tree_seed'])
    tree = gen_tree(rng)
    start, pattern = pick_start(rng, tree, case['start_kind'])
    addrs, port = servers.allocate_addresses(1, port=21)
    srv = ftpserver.FTPServer(tree, addrs[0], 21, mlsd=case['mlsd'], listing_style=case['listing_style']).start()
    tmp = tempfile.mkdtemp(prefix='vc02f')
    try:
        argv = ['ftp://f.test' + start, '--database', os.path.join(tmp, 'db'), '-P', tmp, '--quiet', '--waitretry', '0', '--tries', '2',
                '--timeout', '10', '--no-robots', '--concurrent', str(case['concurrent'])]
        if case['recursive']:
            argv += ['-r', '--level', str(case['level']) if case['level'] else 'inf']
        if case['no_parent']:
            argv.append('--no-parent')
        res = crawl.run_app(argv, {'f.test': addrs[0]})
        log = srv.snapshot()
    finally:
        srv.stop()
        shutil.rmtree(tmp, ignore_errors=True)
    part.evaluations += 1
    replay = dict(case, ftp=True)
    part.count('ftp_crawls')
    part.count('ftp_start_' + case['start_kind'])
    if res['crashed']:
        part.violation('ftp-crawl-crashed/' + case['start_kind'], {'exception': res['exception'], 'log': res['log'][-500:]}, replay)
        return
    lists, files = allowed_sets(tree, start, pattern, case)
    got_lists = set((e['path'].rstrip('/') + '/') for e in log if e['cmd'] in ('LIST', 'MLSD') and 'path' in e)
    got_files = set(e['path'] for e in log if e['cmd'] == 'RETR' and 'path' in e)
    cls = '{}/{}{}'.format(case['start_kind'], 'r{}'.format(case['level'] or 'inf') if case['recursive'] else 'norec',
                           '/np' if case['no_parent'] else '')
    extra_lists = sorted(got_lists - lists)
    extra_files = sorted(got_files - files)
    if extra_lists:
        part.violation('ftp-directory-listed-outside-scope/' + cls, {'listed': extra_lists[:5], 'start': start, 'case': case}, replay)
    if extra_files:
        part.violation('ftp-file-retrieved-outside-scope/' + cls, {'retrieved': extra_files[:5], 'start': start, 'case': case}, replay)
    if not extra_lists and not extra_files:
        part.count('ftp_crawls_within_scope')
    part.count('ftp_commands_checked', len([e for e in log if e['cmd'] in ('LIST', 'MLSD', 'RETR')]))
    # (observation, not a verdict: how much of the allowed set was fetched)
    if files - got_files:
        part.count('ftp_crawls_that_fetched_less_than_allowed')
    else:
        part.count('ftp_crawls_that_fetched_everything_allowed')
    part.nontrivial_case('ftp/{}/{}'.format(cls, case['tree_seed'] % 97))


def worker(job):
    import compat
    compat.install()
    import logging
    logging.disable(logging.CRITICAL)
    import warnings
    warnings.simplefilter('ignore')
    part = common.Part()
    cases = [job['replay']] if 'replay' in job else job['cases']
    for case in cases:
        run_case(case, part)
    return part.dump()


def run(check):
    from harness import par
    rng = random.Random(check.seed + 991)
    total = int((3000 if check.thorough else 240) * check.scale)
    cases = [gen_case(rng) for _ in range(total)]
    nj = check.jobs
    jobs = [{'cases': cases[i::nj]} for i in range(nj) if cases[i::nj]]
    return par.run_jobs('checks.c02c_ftp:worker', jobs, check.jobs, timeout=3600 if check.thorough else 600)
