'''C02 - no request is ever made for a URL outside the configured scope.

Monitor A (differential, this module): real CLI option strings -> real filter stack
(URLFiltersSetupTask + URLFiltersPostURLImportSetupTask on a real URL table) -> verdicts of
DemuxURLFilter.test_info and FetchRule.consult_filters(is_redirect in {False, True}) on
boundary-directed (URL, record) pairs, compared with harness.refscope.
Monitor B (end-to-end crawls offering out-of-scope links): checks.c02b_crawl, merged here.
Monitor C (recursive FTP crawls of generated directory trees: directory, file and glob start URLs): checks.c02c_ftp.
'''
import asyncio
import io
import itertools
import json
import random

from harness import common, par, refscope

HOSTS = ['a.test', 'b.test', 'sub.a.test', 'nota.test', 'a.test.evil.test', 'c.test']
OPTION_POOL = [
    ('recursive', ['-r']),
    ('page_requisites', ['--page-requisites']),
    ('level1', ['--level', '1']), ('level2', ['--level', '2']), ('level0', ['--level', '0']),
    ('prl1', ['--page-requisites-level', '1']), ('prl2', ['--page-requisites-level', '2']),
    ('prl0', ['--page-requisites-level', '0']),
    ('no_parent', ['--no-parent']),
    ('domains', ['--domains', 'a.test,c.test']),
    ('exclude_domains', ['--exclude-domains', 'sub.a.test']),
    ('hostnames', ['--hostnames', 'a.test,b.test']),
    ('exclude_hostnames', ['--exclude-hostnames', 'b.test']),
    ('span_hosts', ['--span-hosts']),
    ('sha_pr', ['--span-hosts-allow', 'page-requisites']),
    ('sha_lp', ['--span-hosts-allow', 'linked-pages']),
    ('sha_both', ['--span-hosts-allow', 'page-requisites,linked-pages']),
    ('accept_regex', ['--accept-regex', r'/(dir|img)/']),
    ('reject_regex', ['--reject-regex', r'(logout|\.zip$)']),
    ('include_dirs', ['--include-directories', '/dir,/img/*']),
    ('exclude_dirs', ['--exclude-directories', '/dir/private,/cgi-*']),
    ('accept', ['--accept', 'html,png,data*']),
    ('reject', ['--reject', 'zip,tmp*']),
    ('tries1', ['--tries', '1']), ('tries3', ['--tries', '3']), ('tries0', ['--tries', '0']),
    ('https_only', ['--https-only']),
    ('follow_ftp', ['--follow-ftp']),
    # the same list options as a user writes them: blanks after the commas
    ('domains_sp', ['--domains', 'a.test, c.test']),
    ('exclude_domains_sp', ['--exclude-domains', 'x.test, sub.a.test']),
    ('hostnames_sp', ['--hostnames', 'a.test , b.test']),
    ('exclude_hostnames_sp', ['--exclude-hostnames', 'x.test, b.test']),
    ('exclude_dirs_sp', ['--exclude-directories', '/nothing, /dir/private, /cgi-*']),
    ('reject_sp', ['--reject', 'bak, zip, tmp*']),
]
EXCLUSIVE = [('level1', 'level2', 'level0'), ('prl1', 'prl2', 'prl0'), ('sha_pr', 'sha_lp', 'sha_both'),
             ('tries1', 'tries3', 'tries0'), ('domains', 'domains_sp'), ('exclude_domains', 'exclude_domains_sp'),
             ('hostnames', 'hostnames_sp'), ('exclude_hostnames', 'exclude_hostnames_sp'), ('exclude_dirs', 'exclude_dirs_sp'),
             ('reject', 'reject_sp')]
LIST_OPTIONS = {'--domains': 'domains', '--exclude-domains': 'exclude_domains', '--hostnames': 'hostnames',
                '--exclude-hostnames': 'exclude_hostnames', '--include-directories': 'include_directories',
                '--exclude-directories': 'exclude_directories', '--accept': 'accept', '--reject': 'reject',
                '--span-hosts-allow': 'span_hosts_allow'}


def independent_lists(argv):
    '''The comma-separated list options as the reference reads them (its own split, blanks around items ignored), so that
    the reference does not inherit what wpull's option parser made of them.'''
    out = {}
    for i, a in enumerate(argv[:-1]):
        if a in LIST_OPTIONS:
            out[LIST_OPTIONS[a]] = [x.strip() for x in argv[i + 1].split(',') if x.strip()]
    return out


def opts_from_args(args):
    return {
        'https_only': args.https_only, 'recursive': args.recursive, 'page_requisites': args.page_requisites,
        'follow_ftp': args.follow_ftp, 'no_parent': args.no_parent, 'domains': args.domains,
        'exclude_domains': args.exclude_domains, 'hostnames': args.hostnames,
        'exclude_hostnames': args.exclude_hostnames, 'tries': args.tries, 'level': args.level,
        'page_requisites_level': args.page_requisites_level, 'accept_regex': args.accept_regex,
        'reject_regex': args.reject_regex, 'include_directories': args.include_directories,
        'exclude_directories': args.exclude_directories, 'accept': args.accept, 'reject': args.reject,
        'span_hosts': args.span_hosts, 'span_hosts_allow': list(args.span_hosts_allow or []),
    }


def build_stack(argv, start_urls):
    '''Real option parsing + real filter construction; returns (demux_filter, fetch_rule, args).'''
    from wpull.application.options import AppArgumentParser
    from wpull.application.builder import Builder
    from wpull.application.tasks.rule import URLFiltersSetupTask, URLFiltersPostURLImportSetupTask
    from wpull.pipeline.app import AppSession
    from wpull.database.sqltable import SQLiteURLTable
    from wpull.database.base import AddURLInfo
    from wpull.processor.rule import FetchRule
    args = AppArgumentParser().parse_args(list(start_urls) + argv)
    builder = Builder(args, unit_test=True)
    session = AppSession(builder.factory, args, io.StringIO())
    table = SQLiteURLTable(':memory:')
    table.add_many([AddURLInfo(u, None, None) for u in start_urls])
    builder.factory.set('URLTable', lambda: table)
    builder.factory.new('URLTable')
    loop = asyncio.new_event_loop()
    try:
        loop.run_until_complete(_as_coro(URLFiltersSetupTask().process(session)))
        loop.run_until_complete(_as_coro(URLFiltersPostURLImportSetupTask().process(session)))
    finally:
        loop.close()
    demux = builder.factory['DemuxURLFilter']
    fetch_rule = FetchRule(url_filter=demux)
    return demux, fetch_rule, args, table


async def _as_coro(gen):
    return await gen


def gen_url(rng, opts):
    scheme = rng.choice(['http', 'http', 'http', 'https', 'ftp', 'mailto', 'javascript'])
    host = rng.choice(HOSTS)
    port = rng.choice(['', '', '', ':8080', ':443'])
    path = rng.choice(['/', '/dir/', '/dir/page.html', '/dir/sub/x.png', '/dirx/page.html', '/dir', '/img/a/b.png', '/img/x.zip',
                       '/other/logout', '/dir/private/s.html', '/dir/private', '/cgi-bin/q', '/cgi-x', '/data1.bin', '/tmpfile',
                       '/a.HTML', '/x.html', '/dir/../up.html', '/dir/page.html?x=.zip', '/top.zip'])
    if scheme in ('mailto', 'javascript'):
        return scheme + ':x@' + host
    return '{}://{}{}{}'.format(scheme, host, port, path)


def gen_record(rng, opts, url):
    level_limit = opts.get('level') or 3
    prl = opts.get('page_requisites_level') or 3
    tries = opts.get('tries') or 3
    level = rng.choice([0, 1, level_limit - 1, level_limit, level_limit + 1, level_limit + 2, level_limit + 3])
    inline = rng.choice([None, None, 0, 1, prl - 1, prl, prl + 1])
    if inline is not None and inline < 0:
        inline = 0
    root = rng.choice(['http://a.test/dir/', 'http://a.test/dir/index.html', 'http://a.test/', 'https://a.test/dir/',
                       'http://a.test:8080/dir/', 'http://b.test/dir/x', 'http://a.test/dir'])
    parent = rng.choice(['http://a.test/dir/page.html', 'http://c.test/far.html', 'https://a.test/', 'ftp://a.test/pub/', root])
    return {'level': max(level, 0), 'inline_level': inline, 'root_url': root, 'parent_url': parent,
            'try_count': rng.choice([0, tries - 1, tries, tries + 1])}


def directed_pairs(rng, opts, n):
    '''Boundary-directed (URL, record) pairs: sibling directory sharing a name prefix with the root directory, host
    names that extend or embed an allowed one, levels / inline levels / try counts on and around their limits.'''
    hosts = ['a.test', 'a.test', 'b.test', 'sub.a.test', 'nota.test', 'a.test.evil.test', 'c.test']
    paths = ['/dir/page.html', '/dirx/page.html', '/dir-old/x.html', '/dir.bak/', '/dir', '/dir/', '/', '/dir/sub/x.png',
             '/di/x.html', '/other/x.html', '/dir/private/s.html', '/dir/privatex', '/img/a.png', '/imgs/a.png', '/x.zip', '/x.zipx',
             '/cgi-bin/q', '/cgi/q', '/data1.bin', '/tmpfile', '/logout', '/dir/page.htmlx',
             # paths that both halves of a two-sided rule match (accept and reject regex, accept and reject suffix lists)
             '/dir/logout', '/img/x.zip', '/dir/sub/a.zip', '/dir/data1.zip', '/dir/tmp.html']
    level_limit = opts.get('level') or 3
    prl = opts.get('page_requisites_level') or 3
    tries = opts.get('tries') or 3
    out = []
    for _ in range(n):
        scheme = rng.choice(['http', 'http', 'https', 'ftp'])
        url = '{}://{}{}{}'.format(scheme, rng.choice(hosts), rng.choice(['', '', ':8080']), rng.choice(paths))
        rec = {'level': rng.choice([0, 1, level_limit, level_limit + 1, level_limit + 2, level_limit + 3]),
               'inline_level': rng.choice([None, None, 1, prl, prl + 1]),
               'root_url': rng.choice(['http://a.test/dir/', 'http://a.test/dir/index.html', 'https://a.test/dir/', 'http://a.test/dir']),
               'parent_url': rng.choice(['http://a.test/dir/page.html', 'http://c.test/far.html', 'ftp://a.test/pub/']),
               'try_count': rng.choice([0, tries - 1, tries])}
        out.append((url, rec))
    return out


def option_sets(rng, n_random):
    names = [n for n, _ in OPTION_POOL]
    pool = dict(OPTION_POOL)

    def ok(combo):
        for grp in EXCLUSIVE:
            if sum(1 for c in combo if c in grp) > 1:
                return False
        return True
    for k in (0, 1, 2):
        for combo in itertools.combinations(names, k):
            if ok(combo):
                yield list(combo)
    # both halves of a two-sided rule together, in a recursive crawl (alone and with one further option)
    for both in (('accept_regex', 'reject_regex'), ('accept', 'reject'), ('include_dirs', 'exclude_dirs'),
                 ('domains', 'exclude_domains'), ('hostnames', 'exclude_hostnames')):
        yield ['recursive'] + list(both)
        for extra in ('span_hosts', 'page_requisites', 'no_parent'):
            yield ['recursive', extra] + list(both)
    for _ in range(n_random):
        k = rng.choice([3, 3, 4, 5, 7])
        combo = rng.sample(names, k)
        if ok(combo):
            yield combo


def worker(job):
    import compat
    compat.install()
    import logging
    logging.disable(logging.CRITICAL)
    from wpull.url import URLInfo
    from wpull.pipeline.item import URLRecord
    part = common.Part()
    rng = random.Random(job['seed'])
    pool = dict(OPTION_POOL)
    start_urls = ['http://a.test/dir/', 'http://c.test/']
    if 'replay' in job:
        sets = [job['replay']['option_names']]
        fixed = [(job['replay']['url'], job['replay']['record'])]
    else:
        sets = job['sets']
        fixed = None
    for names in sets:
        argv = [tok for n in names for tok in pool[n]]
        try:
            demux, fetch_rule, args, table = build_stack(argv, start_urls)
        except SystemExit:
            part.count('option_sets_rejected_by_parser')
            continue
        opts = opts_from_args(args)
        opts.update(independent_lists(argv))
        start_hostnames = set(refscope.split(u)['hostname'] for u in start_urls)
        part.count('option_sets')
        pairs = fixed or ([(None, None)] * job['per_set'] + directed_pairs(rng, opts, job['per_set'] * 6))
        for url, rec in pairs:
            if url is None:
                url = gen_url(rng, opts)
            try:
                info = URLInfo.parse(url)
            except ValueError:
                continue
            if rec is None:
                rec = gen_record(rng, opts, info.url)
            record = URLRecord()
            record.url = info.url
            record.level = rec['level']
            record.inline_level = rec['inline_level']
            record.root_url = rec['root_url']
            record.parent_url = rec['parent_url']
            record.try_count = rec['try_count']
            part.evaluations += 1
            replay = {'option_names': names, 'url': url, 'record': rec}
            test_info = demux.test_info(info, record)
            ref_v, ref_rules = refscope.verdict(info.url, rec, opts, start_hostnames)
            for is_redirect in (False, True):
                got_v, reason, _ti = fetch_rule.consult_filters(info, record, is_redirect=is_redirect)
                want_v, _ = refscope.verdict(info.url, rec, opts, start_hostnames, is_redirect=is_redirect)
                part.count('verdicts_compared')
                if got_v != want_v:
                    failing_ref = sorted(k for k, v in ref_rules.items() if not v)
                    failing_got = sorted(k for k, v in test_info['map'].items() if not v)
                    direction = 'accepted-out-of-scope' if got_v else 'rejected-in-scope'
                    culprit = failing_ref[0] if len(failing_ref) == 1 else ('several' if failing_ref else 'none')
                    key = '{}/{}/reference-fails:{}'.format(direction, 'redirect' if is_redirect else 'plain', culprit)
                    part.violation(key, {'url': info.url, 'record': rec, 'options': argv,
                                         'reference_rules': ref_rules, 'wpull_failed_filters': failing_got}, replay)
            # sensitivity: would dropping one rule or moving a boundary change the reference verdict?
            failing = [k for k, v in ref_rules.items() if not v]
            active = [n for n in names]
            if len(active) >= 2 and len(failing) == 1:
                part.nontrivial_case(common.jhash([sorted(names), info.url, rec]))
            elif len(active) >= 2 and not failing and boundary_case(rec, opts):
                part.nontrivial_case(common.jhash([sorted(names), info.url, rec]))
        table.close()
        if len(part.samples) < 3 and names:
            part.sample({'options': argv, 'url': url, 'record': rec, 'reference_rules': ref_rules})
    return part.dump()


def boundary_case(rec, opts):
    if opts.get('level') and rec['level'] in (opts['level'], opts['level'] + 2):
        return True
    if opts.get('page_requisites_level') and rec['inline_level'] == opts['page_requisites_level']:
        return True
    if opts.get('tries') and rec['try_count'] == opts['tries'] - 1:
        return True
    return False


def main():
    check = common.Check('C02')
    check.rule = ('Monitor A: every subset of <= 2 of 28 scope options (plus sampled larger subsets) as real CLI strings, real filter '
                  'construction; boundary-directed URL/record pairs (level = limit, limit+-1, +2, +3; inline level at its limit; parent '
                  'directory vs sibling with common prefix; a.test vs nota.test / sub.a.test / a.test.evil.test; try count = tries-1, '
                  'tries); verdicts with and without the redirect waiver vs refscope. Monitor B: crawls against an allowed and a '
                  'forbidden host. distinct_nontrivial = distinct (option set, URL, record) with >= 2 options where exactly one '
                  'reference rule fails or a boundary value is hit (cases that can distinguish a dropped filter / moved boundary)')
    check.trusted_base.append('harness/refscope.py reference scope predicate')
    target = 'checks.c02_scope:worker'
    if check.args.replay:
        with open(check.args.replay) as f:
            rp = json.load(f)
        if 'ftp' in rp['replay']:
            res = par.run_jobs('checks.c02c_ftp:worker', [{'seed': 0, 'replay': rp['replay']}], 1, timeout=300)
        elif 'crawl' in rp['replay']:
            from checks import c02b_crawl
            res = par.run_jobs('checks.c02b_crawl:worker', [{'seed': 0, 'replay': rp['replay'],
                                                             '_env': {'PYTHONHASHSEED': rp['replay'].get('hashseed', 0)}}], 1, timeout=300)
        else:
            res = par.run_jobs(target, [{'seed': 0, 'replay': rp['replay']}], 1, timeout=300)
    else:
        rng = random.Random(check.seed)
        sets = list(option_sets(rng, int((6000 if check.thorough else 120) * check.scale)))
        rng.shuffle(sets)
        nj = check.jobs * (4 if check.thorough else 1)
        per_set = 400 if check.thorough else 40
        jobs = [{'seed': check.seed * 1000003 + i, 'sets': sets[i::nj], 'per_set': per_set} for i in range(nj)]
        jobs = [j for j in jobs if j['sets']]
        res = par.run_jobs(target, jobs, check.jobs, timeout=7200 if check.thorough else 900)
        from checks import c02b_crawl, c02c_ftp
        res += c02b_crawl.run(check)
        res += c02c_ftp.run(check)
    for r in res:
        if '_error' in r:
            check.note_inconclusive('worker: ' + r['_error'] + ' ' + r.get('_stderr', '')[-400:])
        else:
            check.merge(r)
    check.finish(required_counters=() if check.args.replay else ('verdicts_compared', 'option_sets', 'crawl_requests_checked',
                                                                 'ftp_commands_checked', 'ftp_crawls_within_scope'))


if __name__ == '__main__':
    main()
