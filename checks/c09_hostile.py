'''C09 - nothing a server sends can end the crawl: bad input becomes a per-URL error.

Hostile-peer monitor: grammar-aware mutations of valid traffic and raw random bytes are served to the real
entry points (HTTP Session.start/download, WebSession, FTP Session file and listing transfers,
RobotsTxtChecker.can_fetch, DemuxDocumentScraper.scrape_info) under random segmentation; the only
exceptions that may leave them are the kinds the processors handle per URL.  End-to-end crawls against a
hostile server check that the crawl continues to a sentinel page.
'''
import asyncio
import io
import json
import os
import random
import re
import shutil
import tempfile
import traceback

from harness import common, par, netsim, httpgen, ftpsim

ALLOWED_NAMES = ('ServerError', 'ProtocolError', 'SSLVerificationError', 'NetworkError')
SPECIALS = [b'\x00', b'\r', b'\n', b'\r\n', b'\x85', b'\xff', b' ', b'\t', b':', b';', b',', b'=', b'-1', b'0', b'99999999999999999999',
            b'%', b'%zz', b'\xe2\x80\xa8', b'"', b"'", b'<', b'>', b'&#x0;', b'\x1f\x8b', b'A' * 70000, b'\\', b'(', b')', b'.']


def mutate(rng, data, n=None):
    data = bytearray(data)
    for _ in range(n or rng.choice([1, 1, 2, 3, 6])):
        if not data:
            data.extend(rng.choice(SPECIALS))
            continue
        op = rng.randrange(8)
        pos = rng.randrange(len(data))
        if op == 0:
            data[pos] ^= 1 << rng.randrange(8)
        elif op == 1:
            del data[pos:pos + rng.choice([1, 1, 2, 5, 20])]
        elif op == 2:
            chunk = data[pos:pos + rng.choice([1, 3, 10])]
            data[pos:pos] = chunk
        elif op == 3:
            data[pos:pos] = rng.choice(SPECIALS)
        elif op == 4:
            data[pos] = rng.randrange(256)
        elif op == 5:
            # number tweaks
            m = list(re.finditer(rb'\d+', bytes(data)))
            if m:
                mm = rng.choice(m)
                val = rng.choice([b'-1', b'0', str(int(mm.group(0)) + rng.choice([-1, 1])).encode(), b'99999999999999999999999',
                                  b'1e3', b'0x10', b'', b'+5', b' 7', b'\xef\xbc\x95'])
                data[mm.start():mm.end()] = val
        elif op == 6:
            # swap two lines
            lines = bytes(data).split(b'\n')
            if len(lines) > 2:
                i, j = rng.randrange(len(lines)), rng.randrange(len(lines))
                lines[i], lines[j] = lines[j], lines[i]
                data = bytearray(b'\n'.join(lines))
        else:
            del data[pos:]
    return bytes(data)


def random_pieces(rng, data):
    if len(data) < 2 or rng.random() < 0.3:
        return [data]
    if rng.random() < 0.2 and len(data) < 3000:
        return [data[i:i + 1] for i in range(len(data))]
    pts = sorted(set(rng.randrange(1, len(data)) for _ in range(rng.randrange(1, 6))))
    out, prev = [], 0
    for p in pts + [len(data)]:
        out.append(data[prev:p])
        prev = p
    return out


def innermost(exc):
    tb = exc.__traceback__
    where = 'outside-wpull'
    while tb is not None:
        fn = tb.tb_frame.f_code.co_filename
        if '/wpull/' in fn and '/verif/' not in fn:
            where = '{}:{}'.format(fn.split('/wpull/', 1)[1], tb.tb_frame.f_code.co_name)
        tb = tb.tb_next
    return where


def judge_exception(entry, exc, part, replay, extra=None):
    from wpull.errors import ServerError, ProtocolError, SSLVerificationError, NetworkError
    from wpull.processor.base import REMOTE_ERRORS
    allowed = (ServerError, ProtocolError, SSLVerificationError, NetworkError)
    if exc is None:
        part.count(entry + '_completed')
        return
    if isinstance(exc, allowed):
        part.count(entry + '_handled_error')
        part.count('handled_' + type(exc).__name__)
        return
    key = '{}/{}/{}'.format(entry, type(exc).__name__, innermost(exc))
    part.violation(key, {'error': repr(exc)[:300], 'trace': ''.join(traceback.format_tb(exc.__traceback__)[-3:])[-900:],
                         'extra': extra}, replay)


# ----------------------------------------------------------------------------------------------- http
def http_case(rng):
    r = httpgen.gen_response(rng)
    wire = r['wire']
    kind = rng.choice(['mutate', 'mutate', 'mutate', 'random', 'longline', 'trailer-longline', 'hugechunk'])
    if kind == 'mutate':
        wire = mutate(rng, wire)
    elif kind == 'random':
        wire = rng.choice([b'', b'HTTP/1.1 200 OK\r\n']) + bytes(rng.randrange(256) for _ in range(rng.randrange(1, 300)))
    elif kind == 'longline':
        wire = b'HTTP/1.1 200 OK\r\nX-Long: ' + b'a' * rng.choice([65000, 70000, 140000]) + b'\r\nContent-Length: 0\r\n\r\n'
    elif kind == 'trailer-longline':
        wire = (b'HTTP/1.1 200 OK\r\nTransfer-Encoding: chunked\r\n\r\n1\r\nx\r\n0\r\nX-T: ' +
                b'b' * rng.choice([66000, 140000]) + b'\r\n\r\n')
    else:
        wire = (b'HTTP/1.1 200 OK\r\nTransfer-Encoding: chunked\r\n\r\n' + rng.choice([b'FFFFFFFFFFFFFFFFFFFF', b'-5', b'1g', b'', b' ']) +
                b'\r\nxx\r\n0\r\n\r\n')
    if rng.random() < 0.15:
        # declared sizes that lie (the progress printers and the recorder compute with them)
        kind = 'declared-size'
        wire = rng.choice(DECLARED_SIZES)
    return {'entry': 'http', 'wire': wire, 'method': r['method'], 'seg_seed': rng.randrange(1 << 30), 'kind': kind,
            # what a crawl hangs on its client: WARC recorder (--warc-file), progress bar / dots (terminal output)
            'listeners': rng.choice([[], [], ['warc'], ['bar'], ['dot'], ['warc', 'bar']])}


DECLARED_SIZES = [
    b'HTTP/1.1 200 OK\r\nContent-Length: 0\r\nTransfer-Encoding: chunked\r\n\r\n5\r\nhello\r\n0\r\n\r\n',
    b'HTTP/1.1 206 Partial Content\r\nContent-Range: bytes 0-4/0\r\nContent-Length: 5\r\n\r\nhello',
    b'HTTP/1.1 206 Partial Content\r\nContent-Range: bytes 0-0/0\r\nTransfer-Encoding: chunked\r\n\r\n5\r\nhello\r\n0\r\n\r\n',
    b'HTTP/1.1 206 Partial Content\r\nContent-Range: bytes */*\r\nContent-Length: 5\r\n\r\nhello',
    b'HTTP/1.1 206 Partial Content\r\nContent-Range: bytes 9-1/x\r\nContent-Length: 5\r\n\r\nhello',
    b'HTTP/1.1 206 Partial Content\r\nContent-Range: garbage\r\nContent-Length: 5\r\n\r\nhello',
    b'HTTP/1.1 200 OK\r\nContent-Length: 00000\r\nTransfer-Encoding: chunked\r\n\r\n5\r\nhello\r\n0\r\n\r\n',
    b'HTTP/1.1 200 OK\r\nContent-Length: 1\r\nTransfer-Encoding: chunked\r\n\r\n' + b'400\r\n' + b'x' * 1024 + b'\r\n0\r\n\r\n',
    b'HTTP/1.1 200 OK\r\nContent-Length: 99999999999999999999999\r\nConnection: close\r\n\r\nhello',
    b'HTTP/1.1 200 OK\r\nContent-Length: -0\r\nTransfer-Encoding: chunked\r\n\r\n5\r\nhello\r\n0\r\n\r\n',
    b'HTTP/1.1 200 OK\r\nContent-Length: 0\r\nContent-Encoding: gzip\r\nTransfer-Encoding: chunked\r\n\r\n5\r\nhello\r\n0\r\n\r\n',
    b'HTTP/1.1 206 Partial Content\r\nContent-Range: bytes 0-4/5\r\nContent-Length: 0\r\nTransfer-Encoding: chunked\r\n\r\n5\r\nhello\r\n0\r\n\r\n',
]


def run_http(case, part):
    from harness import httpdrive
    rng = random.Random(case['seg_seed'])
    responses = [{'pieces': random_pieces(rng, case['wire']), 'then': 'eof', 'method': case['method']}]
    setup = None
    if case.get('listeners'):
        from harness import listeners
        setup = lambda client: listeners.attach(client, case['listeners'], 'http')
        part.count('http_cases_with_listeners_' + '+'.join(case['listeners']))
    outcomes, peer, net = httpdrive.run_sequence(responses, recorder_setup=setup)
    o = outcomes[0]
    if o['error'] == 'STALL':
        part.violation('http/stall', {'wire': case['wire'][:200]}, case)
        return
    judge_exception('http', o.get('error_obj'), part, case, {'kind': case['kind']})


# ----------------------------------------------------------------------------------------------- transport faults
FAULTS = ['reset', 'broken-pipe', 'aborted', 'timeout', 'ssl-error', 'ssl-cert-text', 'cert-error', 'oserror-noerrno', 'unreachable',
          'connect-refused', 'connect-timeout', 'connect-ssl', 'connect-unreachable']


def make_fault(name):
    import errno
    import ssl
    if name == 'reset':
        return ConnectionResetError(errno.ECONNRESET, 'Connection reset by peer')
    if name == 'broken-pipe':
        return BrokenPipeError(errno.EPIPE, 'Broken pipe')
    if name == 'aborted':
        return ConnectionAbortedError(errno.ECONNABORTED, 'aborted')
    if name in ('timeout', 'connect-timeout'):
        return TimeoutError(errno.ETIMEDOUT, 'timed out')
    if name in ('ssl-error', 'connect-ssl'):
        return ssl.SSLError(1, '[SSL: WRONG_VERSION_NUMBER] wrong version number')
    if name == 'ssl-cert-text':
        return ssl.SSLError(1, '[SSL: CERTIFICATE_VERIFY_FAILED] certificate verify failed')
    if name == 'cert-error':
        return ssl.CertificateError("hostname 'x' doesn't match 'y'")
    if name == 'oserror-noerrno':
        return OSError('transport closed')
    if name in ('unreachable', 'connect-unreachable'):
        return OSError(errno.EHOSTUNREACH, 'No route to host')
    if name == 'connect-refused':
        return ConnectionRefusedError(errno.ECONNREFUSED, 'refused')
    raise AssertionError(name)


def inject_case(rng):
    r = httpgen.gen_response(rng, allow=['length', 'chunked', 'close', 'te+cl', 'length0'])
    return {'entry': 'inject', 'wire': r['wire'], 'method': r['method'], 'fault': rng.choice(FAULTS),
            'seg_seed': rng.randrange(1 << 30), 'protocol': rng.choice(['http', 'http', 'ftp'])}


def run_inject(case, part):
    rng = random.Random(case['seg_seed'])
    exc = make_fault(case['fault'])
    if case['protocol'] == 'ftp':
        from checks import c17_ftp
        script = ftpsim.FTPScript()
        holder = {}
        orig_segment = script.segment
        # fail the control connection at a random reply
        target = rng.choice(['welcome', 'USER', 'PASS', 'SIZE', 'TYPE', 'PASV', 'RETR'])
        res = run_ftp_with_fault(script, target, exc, connect=case['fault'].startswith('connect'))
        if res.get('error') == 'STALL':
            part.count('inject_stall')
            return
        judge_exception('inject', res.get('error_obj'), part, case, {'fault': case['fault'], 'protocol': 'ftp', 'at': target})
        return
    from harness import httpdrive
    pieces = random_pieces(rng, case['wire'])
    if len(pieces) < 2:
        pieces = [case['wire'][:len(case['wire']) // 2], case['wire'][len(case['wire']) // 2:]]
    resp = {'pieces': pieces, 'then': 'keep', 'method': case['method']}
    if case['fault'].startswith('connect'):
        outcomes, peer, net = run_http_connect_fault([resp], exc)
    else:
        resp['fault'] = {'at': rng.randrange(0, len(pieces)), 'exc': exc}
        outcomes, peer, net = httpdrive.run_sequence([resp])
    o = outcomes[0]
    if o['error'] == 'STALL':
        part.count('inject_stall')
        return
    judge_exception('inject', o.get('error_obj'), part, case, {'fault': case['fault'], 'protocol': 'http'})


def run_http_connect_fault(responses, exc):
    from harness import httpdrive
    orig_install = netsim.Net.install

    def install(self):
        self.connect_failures.append(exc)
        return orig_install(self)
    netsim.Net.install = install
    try:
        return httpdrive.run_sequence(responses)
    finally:
        netsim.Net.install = orig_install


def run_ftp_with_fault(script, target, exc, connect=False):
    from checks import c17_ftp
    orig_handle = ftpsim.ControlPeer._handle
    orig_made = ftpsim.ControlPeer.connection_made
    orig_install = netsim.Net.install

    def handle(self, conn, line):
        name = line.split(b' ', 1)[0].strip().upper().decode('latin-1')
        if name == target:
            conn.reset(exc)
            return
        return orig_handle(self, conn, line)

    def made(self, conn):
        if target == 'welcome':
            self._buf[conn.id] = bytearray()
            self.conns.append(conn)
            conn.reset(exc)
            return
        return orig_made(self, conn)

    def install(self):
        if connect:
            self.connect_failures.append(exc)
        return orig_install(self)
    ftpsim.ControlPeer._handle = handle
    ftpsim.ControlPeer.connection_made = made
    netsim.Net.install = install
    try:
        return c17_ftp.run_session('ftp://f.test/dir/file.bin', script)
    finally:
        ftpsim.ControlPeer._handle = orig_handle
        ftpsim.ControlPeer.connection_made = orig_made
        netsim.Net.install = orig_install


# ----------------------------------------------------------------------------------------------- web session
def web_case(rng):
    loc = rng.choice([b'/next', b'http://h.test/next', b'http://[::bad', b'', b' ', b'\x00', b'http://h.test:99999/', b'//', b'http://',
                      b'ht!tp://x', b'/a\r\n b', b'http://h.test/%zz', b'\xff\xfe', b'http://\xe2\x98\x83.test/', b'mailto:x', b'?', b'#'])
    cookie = rng.choice([b'a=b', b'=', b'a', b';;;', b'new=1; Path=/fresh/path', b'new=1; Path=/a', b'new=1',
                         b'a=b; Domain=.test; Path=/; Expires=garbage', b'\x00=\x01', b'a=' + b'v' * 5000,
                         b'a=b; Max-Age=-1', b'a=b; Max-Age=99999999999999999999', b'a=b; Expires=Wed, 99 Foo 99999 99:99:99 GMT',
                         b'a="b', b'a=b; Domain=', b'a=b; Version=x', b'\xff=\xfe', b'a=b, c=d; Path', b'$Version=1'])
    auth = rng.choice([b'Basic realm="x"', b'', b'Digest', b'Basic', b'\x00', b'Basic realm=' + b'x' * 3000])
    status = rng.choice([301, 302, 303, 307, 308, 401, 200, 300, 305, 399, 999, 100])
    head = (b'HTTP/1.1 %d X\r\nLocation: ' % status) + loc + b'\r\nSet-Cookie: ' + cookie + b'\r\nWWW-Authenticate: ' + auth + \
        b'\r\nContent-Length: 0\r\n\r\n'
    if rng.random() < 0.3:
        head = mutate(rng, head)
    # sometimes through a proxy: relayed (absolute-form) or, for https, through a CONNECT tunnel whose grant is hostile too
    via = rng.choice([None, None, None, 'proxy', 'tunnel'])
    connect_wire = None
    if via == 'tunnel':
        connect_wire = rng.choice([b'HTTP/1.1 200 Connection established\r\n\r\n', b'HTTP/1.1 200 OK\r\nContent-Length: 5\r\n\r\nhello',
                                   b'HTTP/1.1 407 Proxy Authentication Required\r\nProxy-Authenticate: Basic\r\nContent-Length: 0\r\n\r\n',
                                   b'HTTP/1.1 502 Bad Gateway\r\nTransfer-Encoding: chunked\r\n\r\n5\r\nerror\r\n0\r\n\r\n',
                                   b'HTTP/1.0 200\r\n\r\n', b'garbage\r\n\r\n', b'', b'HTTP/1.1 200 OK\r\nContent-Length: 99\r\n\r\nshort',
                                   b'HTTP/1.1 100 Continue\r\n\r\nHTTP/1.1 200 OK\r\n\r\n', b'HTTP/1.1 204 No Content\r\n\r\n'])
        if rng.random() < 0.4:
            connect_wire = mutate(rng, connect_wire)
    return {'entry': 'web', 'wire': head, 'with_password': rng.random() < 0.5, 'seg_seed': rng.randrange(1 << 30), 'via': via,
            'connect_wire': connect_wire,
            # state carried over from earlier responses: a jar that already holds many cookies of this domain (the policy
            # limits cookies per domain) under one or several paths
            'jar_preload': rng.choice([0, 0, 0, 49, 50, 51, 120]), 'jar_paths': rng.choice([['/'], ['/', '/a', '/b/c']])}


def run_web(case, part):
    from wpull.network.pool import ConnectionPool
    from wpull.protocol.http.client import Client
    from wpull.protocol.http.web import WebClient
    from wpull.protocol.http.request import Request
    from wpull.cookiewrapper import CookieJarWrapper
    from wpull.cookie import DeFactoCookiePolicy
    from http.cookiejar import CookieJar
    rng = random.Random(case['seg_seed'])
    holder = {}

    async def main():
        net = netsim.Net().install()
        try:
            ok = b'HTTP/1.1 200 OK\r\nContent-Length: 2\r\n\r\nok'
            script = [{'pieces': random_pieces(rng, case['wire']), 'then': 'keep'}] + [{'pieces': [ok], 'then': 'keep'}] * 4
            if case.get('connect_wire') is not None:
                script.insert(0, {'pieces': random_pieces(rng, case['connect_wire']) if case['connect_wire'] else [],
                                  'then': 'keep' if case['connect_wire'] else 'eof'})
            peer = netsim.HTTPScriptPeer(script)
            net.default_peer = peer
            if case.get('via'):
                from wpull.proxy.client import HTTPProxyConnectionPool
                pool = HTTPProxyConnectionPool(('127.0.0.1', 3128), resolver=netsim.StaticResolver())
            else:
                pool = ConnectionPool(resolver=netsim.StaticResolver())
            jar = CookieJar()
            jar.set_policy(DeFactoCookiePolicy(cookie_jar=jar))
            client = WebClient(http_client=Client(connection_pool=pool), cookie_jar=CookieJarWrapper(jar))
            if case.get('jar_preload'):
                import http.cookiejar
                for k in range(case['jar_preload']):
                    jar.set_cookie(http.cookiejar.Cookie(
                        0, 'c%d' % k, 'v', None, False, 'h.test', False, False, case['jar_paths'][k % len(case['jar_paths'])], True,
                        False, None, False, None, None, {}))
            request = Request('https://h.test/start' if case.get('via') == 'tunnel' else 'http://h.test/start')
            if case['with_password']:
                request.username, request.password = 'u', 'p'

            async def go():
                session = client.session(request)
                with session:
                    n = 0
                    while not session.done() and n < 8:
                        n += 1
                        # the processors consult the URL filters before every hop; a hop to a non-HTTP scheme is
                        # never fetched through the HTTP client (scheme / follow-ftp rules)
                        if session.next_request().url_info.scheme not in ('http', 'https'):
                            break
                        await session.start()
                        await session.download(file=io.BytesIO())
            task = asyncio.ensure_future(go())
            for _ in range(4000):
                if task.done():
                    break
                await asyncio.sleep(0)
            if not task.done():
                task.cancel()
                try:
                    await task
                except BaseException:
                    pass
                holder['stall'] = True
                return
            try:
                task.result()
            except Exception as e:
                holder['exc'] = e
            try:
                client.close()
            except Exception:
                pass
        finally:
            net.uninstall()
    netsim.run(main(), timeout=60)
    if holder.get('stall'):
        part.count('web_stall_waiting_for_more_bytes')
        return
    if case.get('via'):
        part.count('web_via_' + case['via'])
    judge_exception('web', holder.get('exc'), part, case)


# ----------------------------------------------------------------------------------------------- ftp
LISTINGS = [
    b'-rw-r--r--   1 user  group     1024 Jan  1 12:00 file.txt\r\ndrwxr-xr-x   2 user group 4096 Feb 29  2020 dir\r\n'
    b'lrwxrwxrwx 1 u g 4 Mar  3 03:03 link -> file.txt\r\n',
    b'12-25-20  10:30AM       <DIR>          docs\r\n01-01-99  01:01PM              1234 readme.txt\r\n',
    b'type=file;size=10;modify=20200101120000; a.txt\r\ntype=dir;modify=20191231235959; sub\r\ntype=cdir; .\r\n',
    b'total 8\r\n-rw-r--r-- 1 0 0 5 Dec 31 23:59 x\r\n',
    b'',
]


BOUNDARY_NUMS = ['0', '00', '1', '01', '12', '13', '24', '25', '29', '30', '31', '32', '59', '60', '69', '70', '99', '100', '101', '999',
                 '1000', '1600', '1601', '1899', '1900', '1969', '1970', '2000', '2038', '2039', '9999', '10000', '99999', '-1', '']
MONTHS = ['Jan', 'Feb', 'JAN', 'feb', 'Sep', 'Sept', 'Dec', 'Foo', 'M\xe4r', '\xe7a\xc4\x9f', '1\xe6\x9c\x88', '12', '0', '']


def gen_listing(rng):
    '''Directory listings built from the line grammars the parser knows (unix, MS-DOS/IIS, MLSD-like), with every
    numeric field drawn from boundary values (two/three/four digit years around 100, 1970, 2038, 10000; month and day
    0/13/32; hours 24/25; minutes 60).'''
    n = lambda: rng.choice(BOUNDARY_NUMS)  # noqa
    lines = []
    for _ in range(rng.choice([1, 1, 2, 4])):
        style = rng.randrange(5)
        name = rng.choice(['file.txt', 'a b', '.', '..', 'x -> y', '', '\xe9', 'dir/', 'a\tb'])
        if style == 0:
            lines.append('{}-{}-{}  {}:{}{}  {}  {}'.format(n(), n(), n(), n(), n(), rng.choice(['AM', 'PM', '', 'am', 'XM']),
                                                           rng.choice(['<DIR>', n(), '<JUNCTION>', '']), name))
        elif style == 1:
            lines.append('{}{}{}  {}:{}  {}  {}'.format(n(), rng.choice('-/.'), n() + rng.choice('-/.') + n(), n(), n(),
                                                        rng.choice(['<DIR>', n()]), name))
        elif style == 2:
            lines.append('{} {} {} {} {} {} {} {} {}'.format(rng.choice(['-rw-r--r--', 'drwxr-xr-x', 'lrwxrwxrwx', '-rwsr-xr-t', '?---------', 'd']),
                                                             n(), rng.choice(['user', '0', '']), rng.choice(['group', '0']), n(),
                                                             rng.choice(MONTHS), n(), rng.choice([n() + ':' + n(), n(), n() + ':' + n() + ':' + n()]), name))
        elif style == 3:
            lines.append('{} {} {} {} {} {}-{}-{} {}:{} {}'.format(rng.choice(['-rw-r--r--', 'drwxr-xr-x']), n(), 'u', 'g', n(), n(), n(), n(), n(), n(), name))
        else:
            lines.append('type={};size={};modify={}{}{}{}{}{}; {}'.format(rng.choice(['file', 'dir', 'cdir', 'OS.unix=slink:/x', '']), n(),
                                                                        n(), n(), n(), n(), n(), n(), name))
    return ('\r\n'.join(lines) + '\r\n').encode('latin-1')


LISTING_TEMPLATES = [
    # (format, defaults) - every {field} is replaced in turn by every boundary value while the others keep valid defaults
    ('{mo}-{d}-{y}  {h}:{mi}{ap}  {sz}  name.txt', {'mo': '12', 'd': '25', 'y': '20', 'h': '10', 'mi': '30', 'ap': 'AM', 'sz': '1234'}),
    ('{mo}-{d}-{y}  {h}:{mi}{ap}  <DIR>  docs', {'mo': '01', 'd': '01', 'y': '1999', 'h': '01', 'mi': '01', 'ap': 'PM'}),
    ('{y}-{mo}-{d}  {h}:{mi}  {sz}  name.txt', {'mo': '12', 'd': '25', 'y': '2020', 'h': '10', 'mi': '30', 'sz': '5'}),
    ('-rw-r--r-- {n} user group {sz} {mon} {d} {h}:{mi} file.txt', {'n': '1', 'sz': '1024', 'mon': 'Jan', 'd': '1', 'h': '12', 'mi': '00'}),
    ('drwxr-xr-x {n} user group {sz} {mon} {d} {y} dir', {'n': '2', 'sz': '4096', 'mon': 'Feb', 'd': '29', 'y': '2020'}),
    ('-rw-r--r-- {n} user group {sz} {y}-{mo}-{d} {h}:{mi} file.txt', {'n': '1', 'sz': '5', 'y': '2015', 'mo': '06', 'd': '15', 'h': '08', 'mi': '05'}),
    ('type=file;size={sz};modify={y}{mo}{d}{h}{mi}{s}; a.txt', {'sz': '10', 'y': '2020', 'mo': '01', 'd': '01', 'h': '12', 'mi': '00', 's': '00'}),
]


def listing_battery():
    '''Deterministic list of one-line listings: each field of each line grammar at each boundary value.'''
    out = []
    for fmt, defaults in LISTING_TEMPLATES:
        for field in defaults:
            values = BOUNDARY_NUMS if field not in ('ap', 'mon') else (MONTHS if field == 'mon' else ['AM', 'PM', '', 'am', 'XM', 'A'])
            for v in values:
                out.append(fmt.format(**dict(defaults, **{field: v})))
    return out


def ftp_battery_case(rng, index):
    lines = listing_battery()
    chunk = lines[(index * 6) % len(lines):(index * 6) % len(lines) + 6]
    return {'entry': 'ftp', 'target': 'listing', 'value': ('\r\n'.join(chunk) + '\r\n').encode('latin-1'), 'listing': True,
            'seg_seed': rng.randrange(1 << 30), 'battery': True}


def ftp_case(rng):
    target = rng.choice(['welcome', 'user', 'pass', 'size', 'type', 'pasv', 'begin', 'final', 'listing', 'listing', 'listing'])
    listing = rng.random() < 0.5 or target == 'listing'
    base = {'welcome': b'220 hello\r\n', 'user': b'331 pw\r\n', 'pass': b'230 ok\r\n', 'size': b'213 5\r\n', 'type': b'200 ok\r\n',
            'pasv': b'227 Entering Passive Mode (127,0,3,9,156,65)\r\n', 'begin': b'150 go\r\n', 'final': b'226 done\r\n',
            'listing': rng.choice(LISTINGS)}[target]
    r = rng.random()
    if target == 'listing' and r < 0.35:
        value = gen_listing(rng)
    elif r < 0.6:
        value = mutate(rng, base)
    elif r < 0.8:
        value = bytes(rng.randrange(256) for _ in range(rng.randrange(1, 80))) + (b'\r\n' if target != 'listing' else b'')
    else:
        value = rng.choice([b'227 (1,2,3,4,999,999)\r\n', b'227 Entering (127,0,3,9,256,65)\r\n', b'227 (300,0,0,1,1,1)\r\n', b'213 \xff\r\n',
                            b'213 99999999999999999999999999\r\n', b'220-a\r\n 220 b\r\n220 c\r\n', b'220 a\rb\r\n', b'2\r\n', b'\r\n',
                            b'999 x\r\n', b'000 x\r\n', b'150 x\r\n' * 3, b'-rw-r--r-- 1\r\n', b'01-01-99 25:99PM <DIR> x\r\n',
                            b'type=file;size=abc;modify=99999999999999; a\r\n', b'drwx 1 u g 1 Jan 99 99:99 d\r\n',
                            b'- 1 u g 1 Foo 1 1:1 f\r\n', b'\x00\x00\r\n', b'type=;;; \r\n', b'-rw-r--r-- 1 u g 18446744073709551616 Jan 1 2038 big\r\n'])
    if target == 'listing' and len(value) > 6000:
        # (a 70 000 byte token inside a LIST line takes ~110 s in the date heuristics of the listing parser: slow, but
        # it ends and raises nothing, so it is outside this property; capped to keep the run time bounded)
        value = value[:6000]
    return {'entry': 'ftp', 'target': target, 'value': value, 'listing': listing, 'seg_seed': rng.randrange(1 << 30),
            'listeners': rng.choice([[], [], ['warc'], ['warc'], ['bar'], ['dot'], ['warc', 'bar']])}


def run_ftp(case, part):
    from checks import c17_ftp
    rng = random.Random(case['seg_seed'])
    script = ftpsim.FTPScript()
    t, v = case['target'], case['value']
    if t == 'welcome':
        script.welcome = v
    elif t == 'pasv':
        script.pasv_reply = v
    elif t == 'begin':
        for k in ('RETR', 'LIST', 'MLSD'):
            script.replies[k] = [v]
    elif t == 'final':
        script.final = v
    elif t == 'listing':
        script.data = random_pieces(rng, v)
        if rng.random() < 0.5:
            script.replies['MLSD'] = [b'500 unknown\r\n']
    else:
        script.replies[t.upper()] = [v]
    script.segment = lambda b: random_pieces(rng, b)
    setup = None
    if case.get('listeners'):
        from harness import listeners
        setup = lambda client: listeners.attach(client, case['listeners'], 'ftp')
        part.count('ftp_cases_with_listeners_' + '+'.join(case['listeners']))
    res = c17_ftp.run_session('ftp://f.test/dir/' + ('' if case['listing'] else 'file.bin'), script, listing=case['listing'],
                              client_setup=setup)
    if res.get('teardown_error') is not None:
        judge_exception('ftp-recorder-close', res['teardown_error'], part, case, {'target': t})
    if res.get('error') == 'STALL':
        part.count('ftp_stall_waiting_for_more_bytes')
        return
    judge_exception('ftp', res.get('error_obj'), part, case, {'target': t})


# ----------------------------------------------------------------------------------------------- robots
def gen_robots_file(rng):
    '''Well-formed but unusual robots.txt files: records made of any subset of directive kinds (a record with only a
    crawl delay, only agents, rules before any agent), odd values, comment and blank line placement.'''
    out = []
    for _ in range(rng.choice([1, 2, 3, 5])):
        if rng.random() < 0.85:
            for _ in range(rng.choice([1, 1, 2])):
                out.append('User-agent: ' + rng.choice(['*', 'wpull', 'Wpull/2', '', 'other', '*bot*']))
        kinds = rng.sample(['Disallow', 'Allow', 'Crawl-delay', 'Sitemap', 'Request-rate', 'Visit-time', 'Host', 'Noindex'], rng.randrange(0, 4))
        for k in kinds:
            for _ in range(rng.choice([1, 1, 3])):
                v = {'Crawl-delay': rng.choice(['5', '0.5', '', 'abc', '-1', '1e400', '999999999999999999999']),
                     'Request-rate': rng.choice(['1/5', '1/0', '/', '1/5s', 'x/y', '3', '1/5m 0600-0845']),
                     'Visit-time': rng.choice(['0600-0845', '2500-9999', '-', '0600']),
                     'Sitemap': rng.choice(['http://h.test/s.xml', '', '/s.xml', 'http://[bad'])}.get(
                         k, rng.choice(['/', '', '/x', '/some/page', '*', '/*$', '/so*e/', '$', '/x?y=*', '%', '/%zz', '/\xe9']))
                out.append('{}{} {}'.format(k if rng.random() < 0.8 else k.upper(), rng.choice([':', ':', ' :', ':\t']), v))
        out.append(rng.choice(['', '', '# c', '   # c', '\t']))
    eol = rng.choice(['\n', '\r\n', '\r'])
    return eol.join(out).encode('utf-8')


def robots_case(rng):
    body = rng.choice([b'User-agent: *\nDisallow: /x\n', b'User-agent: *\r\nDisallow:\r\nCrawl-delay: 5\r\nSitemap: http://h/s.xml\r\n'])
    r = rng.random()
    if r < 0.3:
        body = gen_robots_file(rng)
    elif r < 0.6:
        body = mutate(rng, body)
    elif r < 0.8:
        body = bytes(rng.randrange(256) for _ in range(rng.randrange(0, 400)))
    else:
        body = rng.choice([b'\xff\xfe' + 'User-agent: *\nDisallow: /'.encode('utf-16-le'), b'User-agent: *\nDisallow: /' + b'\xc3' * 10,
                           b'User-agent: \x00\nDisallow: \x00', b'User-agent: *\nCrawl-delay: abc\nDisallow: /*$*$\n' * 50,
                           b'Disallow: [\nUser-agent: (\nAllow: *?*+{\n'])
    head = b'HTTP/1.1 200 OK\r\nContent-Type: text/plain\r\nContent-Length: ' + str(len(body)).encode() + b'\r\n\r\n'
    status_mut = rng.random() < 0.2
    wire = head + body
    if rng.random() < 0.25:
        # robots.txt answered with a redirect: the checker follows it by itself
        loc = rng.choice([b'/r2.txt', b'http://h.test/r2.txt', b'mailto:x', b'ftp://h.test/r', b'http://[::bad', b'', b'javascript:1',
                          b'http://h.test:99999/', b'//', b'http://\xe2\x98\x83.test/', b'file:///etc/passwd', b'x:y', b'http://',
                          b'https://h.test/r2.txt'])
        wire = b'HTTP/1.1 %d R\r\nLocation: ' % rng.choice([301, 302, 307, 308]) + loc + b'\r\nContent-Length: 0\r\n\r\n'
    if status_mut:
        wire = mutate(rng, wire, 1)
    return {'entry': 'robots', 'wire': wire, 'seg_seed': rng.randrange(1 << 30)}


def run_robots(case, part):
    from wpull.network.pool import ConnectionPool
    from wpull.protocol.http.client import Client
    from wpull.protocol.http.web import WebClient
    from wpull.protocol.http.request import Request
    from wpull.protocol.http.robots import RobotsTxtChecker
    from wpull.robotstxt import RobotsTxtPool
    rng = random.Random(case['seg_seed'])
    holder = {}
    tmp = tempfile.mkdtemp(prefix='vc09r')

    async def main():
        net = netsim.Net().install()
        try:
            peer = netsim.HTTPScriptPeer([{'pieces': random_pieces(rng, case['wire']), 'then': 'eof'}] +
                                         [{'pieces': [b'HTTP/1.1 200 OK\r\nContent-Length: 0\r\n\r\n'], 'then': 'eof'}] * 3)
            net.default_peer = peer
            pool = ConnectionPool(resolver=netsim.StaticResolver())
            client = WebClient(http_client=Client(connection_pool=pool))
            checker = RobotsTxtChecker(web_client=client, robots_txt_pool=RobotsTxtPool())
            request = Request('http://h.test/some/page')
            request.fields['User-Agent'] = 'wpull'

            async def go():
                f = open(os.path.join(tmp, 'robots.tmp'), 'w+b')
                return await checker.can_fetch(request, file=f)
            task = asyncio.ensure_future(go())
            for _ in range(4000):
                if task.done():
                    break
                await asyncio.sleep(0)
            if not task.done():
                task.cancel()
                try:
                    await task
                except BaseException:
                    pass
                holder['stall'] = True
                return
            try:
                holder['result'] = task.result()
            except Exception as e:
                holder['exc'] = e
            try:
                client.close()
            except Exception:
                pass
        finally:
            net.uninstall()
    try:
        netsim.run(main(), timeout=60)
    finally:
        shutil.rmtree(tmp, ignore_errors=True)
    if holder.get('stall'):
        part.count('robots_stall')
        return
    judge_exception('robots', holder.get('exc'), part, case)


# ----------------------------------------------------------------------------------------------- scrape
DOCS = [
    (b'text/html', b'<!DOCTYPE html><html><head><base href="/b/"><meta http-equiv="refresh" content="5; url=/r"><link rel="stylesheet" '
                   b'href="s.css"><style>body{background:url(i.png)}</style><script src="a.js"></script><script>var u="http://x.test/j.html";'
                   b'</script></head><body><a href="/a">a</a><img src="i.png" srcset="a.png 1x, b.png 2x"><form action="/f"></form>'
                   b'<iframe src="f.html"></iframe><a href="javascript:void(0)">j</a><div style="background: url(\'q.png\')"></div>'
                   b'<object data="o.swf"><param name="movie" value="m.swf"></object><applet code="A.class" codebase="/c/" archive="a.jar">'
                   b'</applet><embed src="e"></body></html>'),
    (b'text/css', b'@import url("a.css"); @import "b.css"; body { background: url( x.png ) } .a{background:url(data:image/png;base64,AAA)} '
                  b'@font-face{src:url(\'f.woff\')}'),
    (b'application/javascript', b'var a = "http://x.test/p.html"; var b = \'/rel/path.js\'; fetch("api/v1?x=1"); var c="\\u0041\\x41\\/";'),
    (b'application/xml', b'<?xml version="1.0" encoding="UTF-8"?><urlset xmlns="http://www.sitemaps.org/schemas/sitemap/0.9"><url><loc>'
                         b'http://h.test/a</loc></url><url><loc> http://h.test/b </loc></url></urlset>'),
    (b'text/plain', b'User-agent: *\nSitemap: http://h.test/sitemap.xml\nDisallow: /x\n'),
]
CONTENT_TYPES = [b'text/html', b'text/html; charset=utf-8', b'text/html; charset=utf-16', b'text/html; charset=bogus-\x00', b'text/css',
                 b'application/javascript', b'application/xml', b'text/xml; charset=shift_jis', b'application/xhtml+xml', b'', b';;;',
                 b'text/html; charset="', b'image/png', b'text/plain', b'TEXT/HTML;CHARSET=UTF-7', b'text/html; charset=idna',
                 b'text/html; charset=rot13', b'text/html; charset=hex', b'text/html; charset=unicode_escape', b'text/html; charset=utf-32']


HOSTILE_LINKS = ['http://[bad/', '//cdn.test/x.class', '//', 'http://h:99999/', '&#0;', 'x', '/a', '../../..', 'javascript:void(0)', 'http://[::1',
                 '#', '?', 'mailto:x', 'data:,', 'http://%zz/', 'ht!tp://x', '//[', ' ', '', 'http://\u2603.test/', 'http://h.test:port/',
                 'http://a..b/', 'http://' + 'a' * 300 + '/', '\\\\unc\\path', 'http:///x', 'http://h.test/%', 'ftp://u:p@h.test/',
                 # data: URIs whose media type is not of the form type/subtype, and other strings a type guesser sees
                 'data:image/png/x;base64,AAAA/pixel.png', 'data:a/b/c/d,x', 'data:/,', 'data:;base64,/x.png', 'data:image,/a.gif', 'data:///x.js',
                 'x.tar.gz/', 'a.b/c.d/e.f', 'file.svgz', '/x.css.js.html', '.htaccess', 'a.%2Fjs', 'x.JS', '/a.js?b.css#c.png']
HTML_TEMPLATES = ['<base href="{0}">', '<a href="{0}">t</a>', '<img src="{0}" srcset="{1} 1x, {2} 2x">',
                  '<applet code="{0}" codebase="{1}" archive="{2},{0}"></applet>', '<object data="{0}" codebase="{1}" classid="{2}"></object>',
                  '<embed src="{0}" codebase="{1}">', '<meta http-equiv="refresh" content="0; url={0}">', '<link rel="stylesheet" href="{0}">',
                  '<form action="{0}"></form>', '<iframe src="{0}"></iframe>', '<body background="{0}">', '<div style="background:url({0})"></div>',
                  '<script src="{0}"></script>', '<param name="movie" value="{0}">', '<script>var u = "{0}"; var v = \'{1}\';</script>',
                  '<style>@import url({0}); a {{ background: url("{1}") }}</style>', '<frame src="{0}">', '<area href="{0}">',
                  '<video src="{0}" poster="{1}"></video>', '<table background="{0}"><td background="{1}"></table>']


def hostile_html(rng):
    parts = ['<html><head>']
    for _ in range(rng.choice([2, 4, 8])):
        t = rng.choice(HTML_TEMPLATES)
        parts.append(t.format(rng.choice(HOSTILE_LINKS), rng.choice(HOSTILE_LINKS), rng.choice(HOSTILE_LINKS)))
    parts.append('</body></html>')
    return ''.join(parts).encode('utf-8')


def hostile_script(rng):
    '''Script and style sheet documents that quote hostile strings (what the JavaScript and CSS scrapers pick up).'''
    v = [rng.choice(HOSTILE_LINKS) for _ in range(4)]
    if rng.random() < 0.5:
        return b'application/javascript', ('var a = "{0}"; load(\'{1}\');\nfunction f() {{ return "{2}"; }}\nx = {{"u": "{3}"}};'.format(*v)).encode('utf-8')
    return b'text/css', ('@import "{0}"; @import url({1});\nbody {{ background: url("{2}") }} .a {{ src: url(\'{3}\') }}'.format(*v)).encode('utf-8')


def scrape_case(rng):
    ctype, body = rng.choice(DOCS)
    r = rng.random()
    if r < 0.1:
        ctype, body = hostile_script(rng)
    elif r < 0.2:
        ctype, body = b'text/html', hostile_html(rng)
    elif r < 0.6:
        body = mutate(rng, body)
    elif r < 0.75:
        body = bytes(rng.randrange(256) for _ in range(rng.randrange(0, 600)))
    elif r < 0.85:
        body = body.decode('latin-1').encode(rng.choice(['utf-16', 'utf-32', 'utf-16-be', 'cp037', 'utf-7']))
    elif r < 0.95:
        body = rng.choice([b'<a href="http://[::1">x</a><a href="http://h:99999999/">y</a><a href="\x00">z</a><a href="//">q</a>',
                           b'<' * 3000, b'<a ' * 2000, b'<!--' + b'-' * 5000, b'<a href="' + b'\xf0\x9f' * 200 + b'">',
                           b'<html><head><meta charset="utf-7"><meta http-equiv="Content-Type" content="text/html; charset=bogus">',
                           b'<base href="http://[bad"><a href="x">', b'<meta http-equiv="refresh" content="' + b'9' * 400 + b';url=x">',
                           b'<img srcset=",,, ,1x,, a 2x 3x,">', b'<script>' + b'"' * 1001 + b'</script>', b'\x1f\x8b\x08\x00garbage',
                           b'<?xml version="1.0"?><urlset><url><loc>\x00\xff</loc></url></urlset>',
                           b'@import url(' + b'(' * 500, b'a{background:url(\\' + b'\\' * 300 + b')}',
                           b'<a href="&#xD800;&#x110000;&#-1;&bogus;">', b'<a href="http://h/%">' + b'&#0;' * 50])
    else:
        body = b''
    if rng.random() < 0.5:
        ctype = rng.choice(CONTENT_TYPES)
    return {'entry': 'scrape', 'content_type': ctype, 'body': body,
            'url': rng.choice(['http://h.test/dir/page.html', 'http://h.test/s.css', 'http://h.test/a.js', 'http://h.test/sitemap.xml',
                               'http://h.test/robots.txt', 'http://h.test/', 'ftp://h.test/x.html']),
            'link_type': rng.choice([None, 'html', 'css', 'javascript', 'sitemap', 'media'])}


_scraper_cache = {}


def get_scraper():
    if 'demux' in _scraper_cache:
        return _scraper_cache['demux']
    from wpull.application.options import AppArgumentParser
    from wpull.application.builder import Builder
    from wpull.application.tasks.download import ParserSetupTask
    from wpull.pipeline.app import AppSession
    args = AppArgumentParser().parse_args(['http://h.test/', '--sitemaps', '-r'])
    builder = Builder(args, unit_test=True)
    session = AppSession(builder.factory, args, io.StringIO())
    ParserSetupTask._build_html_parser(session)
    ParserSetupTask._build_demux_document_scraper(session)
    _scraper_cache['demux'] = builder.factory['DemuxDocumentScraper']
    return _scraper_cache['demux']


def run_scrape(case, part):
    from wpull.protocol.http.request import Request, Response
    from wpull.protocol.ftp.request import Request as FTPRequest
    from wpull.body import Body
    from wpull.pipeline.item import LinkType
    demux = get_scraper()
    try:
        if case['url'].startswith('ftp'):
            return
        request = Request(case['url'])
        response = Response(200, 'OK')
        response.request = request
        if case['content_type']:
            response.fields['Content-Type'] = case['content_type'].decode('latin-1')
        f = io.BytesIO(case['body'])
        response.body = Body(f)
        lt = LinkType(case['link_type']) if case['link_type'] else None
        result = demux.scrape_info(request, response, lt)
        n = 0
        for scraper, res in result.items():
            if res:
                n += len(res.link_contexts)
        part.count('links_scraped', n)
        exc = None
    except Exception as e:
        exc = e
    judge_exception('scrape', exc, part, case, {'content_type': case['content_type']})


# ----------------------------------------------------------------------------------------------- crawl
def crawl_case(rng):
    ctype, body = rng.choice(DOCS[:2])
    hostile = rng.choice(['mutated-response', 'mutated-body', 'garbage', 'hostile-links', 'hostile-fields', 'hostile-fields', 'hostile-markup',
                          'hostile-markup', 'redirect-307'])
    if hostile == 'hostile-markup':
        # every link-bearing element and attribute, with values that are attribute names, odd file names, non-URLs: what is
        # scraped here goes through the filters and into the URL table (link type, inline flag, base joins)
        b = ('<html><head>%s</head><body>%s</body></html>' % (''.join(gen_element(rng) for _ in range(rng.randrange(0, 3))),
                                                            ''.join(gen_element(rng) for _ in range(rng.randrange(1, 8))))).encode('utf-8', 'replace')
        raw = b'HTTP/1.1 200 OK\r\nContent-Type: text/html\r\nContent-Length: ' + str(len(b)).encode() + b'\r\n\r\n' + b
        ctype = b'text/html'
    elif hostile == 'redirect-307':
        # a redirect that makes the client repeat its request (body included) elsewhere
        raw = (b'HTTP/1.1 %d Again\r\nLocation: %s\r\nContent-Length: 0\r\n\r\n' %
               (rng.choice([307, 308, 307, 302, 303]), rng.choice([b'/sentinel.html', b'/hostile?again', b'http://a.test/sentinel.html', b'//a.test/x'])))
    if hostile in ('hostile-markup', 'redirect-307'):
        pass
    elif hostile == 'hostile-fields':
        # a well-framed response whose header fields are what the file writer, the timestamp / continue logic and the
        # naming options compute with
        b = body
        fields = [b'Content-Type: ' + ctype, b'Content-Length: ' + str(len(b)).encode()]
        for _ in range(rng.choice([1, 1, 2, 3])):
            fields.append(rng.choice(HOSTILE_FIELDS))
        rng.shuffle(fields)
        status = rng.choice([b'200 OK', b'200 OK', b'206 Partial Content', b'304 Not Modified', b'416 Range Not Satisfiable', b'203 X'])
        raw = b'HTTP/1.1 ' + status + b'\r\n' + b'\r\n'.join(fields) + b'\r\n\r\n' + (b'' if status.startswith(b'304') else b)
    elif hostile == 'mutated-response':
        r = httpgen.gen_response(rng, allow=['length', 'chunked', 'close', 'te+cl'])
        raw = mutate(rng, r['wire'])
    elif hostile == 'mutated-body':
        b = mutate(rng, body)
        raw = b'HTTP/1.1 200 OK\r\nContent-Type: ' + ctype + b'\r\nContent-Length: ' + str(len(b)).encode() + b'\r\n\r\n' + b
    elif hostile == 'garbage':
        raw = bytes(rng.randrange(256) for _ in range(rng.randrange(1, 200)))
    else:
        links = [b'http://[::1', b'http://h:999999/', b'/a%00b', b'/trailing.', b'/sp ace ', b'//', b'/\xff\xfe', b'ftp://a.test/%0D%0AX',
                 b'/' + b'x' * 3000, b'/a/../../..', b'http://\xe2\x98\x83.test/', b'/q?' + b'a=b&' * 500, b'mailto:x', b'/con.', b'/nul.txt ']
        b = b'<html><body>' + b''.join(b'<a href="' + l + b'">x</a>' for l in rng.sample(links, rng.randrange(1, 6))) + b'</body></html>'
        raw = b'HTTP/1.1 200 OK\r\nContent-Type: text/html\r\nContent-Length: ' + str(len(b)).encode() + b'\r\n\r\n' + b
    options = [o for o in ['--timestamping', '--continue', '--save-headers', '--post-data=a=b&c=d', '--strip-session-id', '--escaped-fragment', '--content-disposition', '--adjust-extension',
                           '--trust-server-names', '--no-use-server-timestamps', '--page-requisites', '--no-clobber']
               if rng.random() < 0.25]
    if '--timestamping' in options and '--no-clobber' in options:
        options.remove('--no-clobber')        # (the option parser refuses the pair)
    if rng.random() < 0.08:
        # one output stream for all documents
        options = [o for o in options if o not in ('--timestamping', '--continue', '--no-clobber')] + ['-O', '@OUT@']
    warc = rng.random() < 0.3
    if warc:
        # (the option parser refuses WARC output together with these)
        options = [o for o in options if o not in ('--timestamping', '--continue', '--no-clobber')]
    return {'entry': 'crawl', 'raw': raw, 'hostile': hostile, 'windows_names': rng.random() < 0.3, 'warc': warc,
            'options': options, 'second_run': rng.random() < 0.5,
            # URL layouts in which one URL's file name is another URL's directory (extension-less pages: /docs and
            # /docs/intro), linked in a random order and fetched with some concurrency
            'layout': rng.sample(LAYOUT_URLS, rng.randrange(2, len(LAYOUT_URLS) + 1)) if rng.random() < 0.4 else [],
            'concurrent': rng.choice([1, 1, 2, 4]), 'delay_seed': rng.randrange(1 << 30),
            'progress': rng.choice(['quiet', 'quiet', 'bar', 'dot']),
            # post-processing of what the server sent: link conversion reads every saved file again after the downloads
            'convert_links': rng.random() < 0.3}


LAYOUT_URLS = ['/d', '/d/e', '/d/e/f.html', '/d/e/f.html/g', '/d/', '/d/e/', '/k/l/m', '/k/l', '/k', '/k/l/m/n/o', '/index.html', '/index.html/x',
               '/d/e/f.html/g/', '/k/l/']

MARKUP_VALUES = ['data', 'src', 'href', 'code', 'codebase', 'archive', 'classid', 'style', 'zzz', 'x.css', 'y.js', 'p.html', 'pic.png', '', ' ', '/', '//',
                 'http://[bad', '#', '?', 'javascript:x', 'data:,', 'a b', 'ftp://a.test/f', 'mailto:x', '../..', 'x' * 300, 'httpx://y/z', 'http+unix://s/x',
                 '/sentinel.html', 'http://a.test/sentinel.html#!frag', '/p;jsessionid=ABC?sid=1', '\u2028', '&#0;', '%00', '/a\tb', 'HTTP://A.TEST/',
                 'file:///etc/passwd', 'about:blank', '//a.test:99999/', 'http://a.test:-1/', 'C:\\x', '.', '..', '~', '*']
MARKUP_ELEMENTS = ['<object codebase="{0}" data="{1}" classid="{2}" archive="{1} {2}"></object>', '<applet codebase="{0}" code="{1}" archive="{2}"></applet>',
                   '<embed src="{0}">', '<img src="{0}" srcset="{1} 1x, {2} 2x" longdesc="{1}" usemap="{2}">', '<meta http-equiv="refresh" content="3; url={0}">',
                   '<base href="{0}">', '<link rel="{1}" href="{0}">', '<form action="{0}"></form>', '<a href="{0}" ping="{1}">t</a>', '<body background="{0}">',
                   '<script src="{0}"></script>', '<iframe src="{0}"></iframe>', '<input type="image" src="{0}">', '<video poster="{0}" src="{1}"></video>',
                   '<source srcset="{0}" src="{1}">', '<table background="{0}"><td background="{1}"></td></table>', '<q cite="{0}">q</q>',
                   '<div style="background:url({0})"></div>', '<object data="{0}"><param name="{1}" value="{2}"></object>', '<frame src="{0}">',
                   '<area href="{0}">', '<bgsound src="{0}">', '<layer src="{0}">', '<overlay src="{0}">', '<script>var u = "{0}"; load(\'{1}\');</script>',
                   '<style>@import "{0}"; a {{ background: url({1}) }}</style>', '<a href="{0}" rel="nofollow">n</a>', '<head profile="{0}">',
                   '<blockquote cite="{0}"></blockquote>', '<ins cite="{0}"></ins>', '<html manifest="{0}">', '<button formaction="{0}"></button>',
                   '<object codebase="{0}" data="{0}"></object>']


def gen_element(rng):
    return rng.choice(MARKUP_ELEMENTS).format(rng.choice(MARKUP_VALUES), rng.choice(MARKUP_VALUES), rng.choice(MARKUP_VALUES))


HOSTILE_FIELDS = [
    b'Last-Modified: garbage', b'Last-Modified: ', b'Last-Modified: Mon, 31 Feb 2020 25:61:61 GMT', b'Last-Modified: Thu, 01 Jan 99999 00:00:00 GMT',
    b'Last-Modified: Thu, 01 Jan 1900 00:00:00 GMT', b'Last-Modified: -1', b'Last-Modified: Thu, 01 Jan 1970 00:00:00 +9999',
    b'Last-Modified: \xff\xfe', b'Last-Modified: Sat, 29 Feb 2021 10:00:00 GMT', b'Last-Modified: 0', b'Last-Modified: Fri, 13 Dec 1901 20:45:51 GMT',
    b'Content-Disposition: attachment; filename="../../x"', b'Content-Disposition: attachment; filename=', b'Content-Disposition: attachment; filename="\x00"',
    b'Content-Disposition: attachment; filename*=UTF-8\'\'%e2%82', b'Content-Disposition: ;;;', b'Content-Disposition: attachment; filename="' + b'n' * 400 + b'"',
    b'Content-Range: bytes 5-1/3', b'Content-Range: bytes */0', b'Content-Range: garbage', b'Content-Range: bytes 0-0/0', b'Content-Range: bytes 99999999999999999999-/1',
    b'Content-Type: text/html; charset=\xff', b'Content-Type: ', b'Content-Type: text/html; charset="', b'Content-Type: ' + b'a/b;' * 300,
    b'Content-Encoding: gzip', b'Content-Encoding: \x00', b'Accept-Ranges: none', b'ETag: "', b'Date: garbage', b'Expires: -1', b'Refresh: 0; url=http://[bad',
    b'Link: <http://[bad>; rel="next"', b'Location: http://[bad', b'Content-Location: \xff', b'Content-MD5: ???', b'Age: 999999999999999999999',
]


def run_crawl_case(case, part):
    from harness import servers, crawl

    def handler(req):
        t = req['target']
        html = [('Content-Type', 'text/html; charset=utf-8')]
        if t == '/':
            extra = ''.join('<a href="%s">l</a>' % u for u in case.get('layout') or [])
            return {'status': 200, 'headers': html, 'body': ('<html><body><a href="/hostile">h</a>%s<a href="/sentinel.html">s</a></body></html>' % extra).encode()}
        if t == '/sentinel.html':
            return {'status': 200, 'headers': html, 'body': b'<html><body>ok</body></html>'}
        if t == '/hostile':
            return {'raw': case['raw'], 'close': True}
        if t in (case.get('layout') or []):
            return {'status': 200, 'headers': html, 'body': b'<html><body>page ' + t.encode() + b'</body></html>'}
        return {'status': 404, 'reason': 'NF', 'headers': html, 'body': b'nf'}
    addrs, port = servers.allocate_addresses(1)
    srv = servers.Server(handler, addrs, port, delay_seed=case.get('delay_seed', 0),
                         max_delay=0.01 if case.get('concurrent', 1) > 1 else 0.0).start()
    tmp = tempfile.mkdtemp(prefix='vc09')
    import logging
    logging.disable(logging.NOTSET)       # (the crash classifier reads the application's own log)
    try:
        db = os.path.join(tmp, 'crawl.db')
        argv = ['http://a.test/', '-r', '--level', '3', '--no-robots', '--database', db, '-P', tmp, '--waitretry', '0',
                '--tries', '3', '--timeout', '5'] + [os.path.join(tmp, 'all-documents.bin') if o == '@OUT@' else o for o in (case.get('options') or [])]
        if case.get('concurrent', 1) > 1:
            argv += ['--concurrent', str(case['concurrent'])]
        if case.get('layout'):
            part.count('crawl_with_file_and_directory_name_conflicts')
        progress = case.get('progress', 'quiet')
        argv += ['--quiet'] if progress == 'quiet' else ['--progress', progress]
        if case['windows_names']:
            argv += ['--restrict-file-names', 'windows']
        if case['warc']:
            argv += ['--warc-file', os.path.join(tmp, 'w'), '--warc-tempdir', tmp]
        if case.get('convert_links'):
            argv += ['--convert-links']
        res = crawl.run_app(argv, {'a.test': addrs[0]}, tty=(progress == 'bar'))
        if case.get('second_run') and not (res['crashed'] or res['exit_status'] in (None, 1)):
            # the same command again over the files of the first run (what --continue, --timestamping and --no-clobber
            # are about): conditional / range requests meet the same hostile answer
            part.count('crawl_second_runs')
            os.remove(db)
            res = crawl.run_app(argv, {'a.test': addrs[0]}, tty=(progress == 'bar'))
        rows = crawl.read_table(db) if os.path.exists(db) else []
        log = srv.log.snapshot()
    finally:
        logging.disable(logging.CRITICAL)
        srv.stop()
        shutil.rmtree(tmp, ignore_errors=True)
    replay = case
    part.count('crawl_progress_' + progress)
    for o in case.get('options') or []:
        part.count('crawl_option_' + o.lstrip('-'))
    if res['crashed'] or res['exit_status'] in (None, 1):
        m = re.search(r'(\w+(?:Error|Exception))[:\s]', res['log'][::-1][::-1].split('Traceback')[-1]) if 'Traceback' in res['log'] else None
        last = re.findall(r'\n(\w+(?:\.\w+)*(?:Error|Exception)):', res['log'])
        files = re.findall(r'File "[^"]*/wpull/([^"]+)", line \d+, in (\w+)', res['log'])
        where = '{}:{}'.format(*files[-1]) if files else 'unknown'
        part.violation('crawl/{}/{}'.format(last[-1] if last else (res['exception'] or 'exit-1').split(':')[0], where),
                       {'exit': res['exit_status'], 'exception': res['exception'], 'log': res['log'][-900:], 'hostile': case['hostile']}, replay)
        return
    if res['exit_status'] == 3:
        # an OSError left the pipeline: the application takes it for a local disk problem and ends the crawl
        last = re.findall(r'(\w+(?:Error|Exception)): ([^\n]{0,60})', res['log'])
        part.violation('crawl/ended-by-an-error-taken-for-a-disk-problem/{}'.format(last[-1][0] if last else 'OSError'),
                       {'exit': 3, 'log': res['log'][-500:], 'hostile': case['hostile'], 'options': case.get('options')}, replay)
        return
    part.count('crawl_completed')
    rowmap = {r['url']: r for r in rows}
    s = rowmap.get('http://a.test/sentinel.html')
    served = [e for e in log if e['target'] == '/sentinel.html' and e.get('served')]
    if '--continue' in (case.get('options') or []):
        # a file that exists already is asked for from its end; the harness server ignores Range, so such a URL fails as a
        # per-URL error.  That happens to the server's own pages on a second run, and in a first run when the hostile URL
        # redirects to the sentinel and saves it first.  Only the crash / unfinished-row verdicts apply.
        part.count('crawl_with_continue')
    elif s and s['status'] == 'done':
        part.count('crawl_sentinel_done')
    elif s and s['status'] in ('skipped', 'error') and not served:
        # every try of the sentinel was spent on a connection that still held surplus bytes of the hostile response
        # (the hostile URL is retried in between and poisons each new connection): the sentinel failed as a per-URL
        # error and the crawl went on, which is all this property asks; the poisoning itself is C08's subject
        part.count('crawl_sentinel_tries_lost_on_poisoned_connections')
    else:
        part.violation('crawl/sentinel-not-done', {'row': s, 'hostile': case['hostile'], 'served': len(served)}, replay)
    unfinished = [r for r in rows if r['status'] in ('todo', 'in_progress')]
    if unfinished:
        part.violation('crawl/rows-left-unfinished', {'rows': unfinished[:3]}, replay)


# ----------------------------------------------------------------------------------------------- FTP crawl
FTP_BAD_REPLIES = [b'\xff\xfe not ftp\r\n', b'421 too many users\r\n', b'999 what\r\n', b'200-never ends\r\n', b'500 no\r\n', b'\r\n', b'2\r\n',
                   b'530 not logged in\r\n', b'227 Entering Passive Mode (1,2,3)\r\n', b'213 abc\r\n', b'150 x\r\n226 y\r\n226 z\r\n',
                   b'550 \xe9\xe8\r\n', b'226' + b'-x' * 40000 + b'\r\n']


def ftpcrawl_case(rng):
    '''The real application on ftp:// start URLs (files without a trailing slash - their type is probed in the parent's
    listing first -, directories, globs) against a server that misbehaves at one command of some connections.'''
    if rng.random() < 0.2:
        # many file URLs in as many directories (each file's type is looked up in a listing of its directory; the listings
        # are kept in a small cache), server behaving
        n = rng.choice([9, 10, 11, 12, 25])
        return {'entry': 'ftpcrawl', 'start': ['/many/d%02d/file%02d.bin' % (i, i) for i in range(n)], 'many_dirs': n, 'at': 'NEVER', 'act': 'close',
                'connections': 'all', 'recursive': rng.random() < 0.3, 'options': [o for o in ['--preserve-permissions'] if rng.random() < 0.5],
                'mlsd': rng.random() < 0.3, 'concurrent': rng.choice([1, 1, 3]), 'second_run': False}
    return {'entry': 'ftpcrawl',
            'start': rng.sample(['/pub/file.bin', '/pub/', '/pub/sub', '/pub/*.bin', '/pub/sub/deep.txt', '/pub/missing', '/'], rng.choice([1, 2, 3])),
            'at': rng.choice(['connect', 'USER', 'PASS', 'PWD', 'CWD', 'TYPE', 'PASV', 'LIST', 'RETR', 'SIZE', 'MLSD', 'REST', 'SYST']),
            'act': rng.choice(['close', 'close', rng.choice(FTP_BAD_REPLIES), rng.choice(FTP_BAD_REPLIES)]),
            'connections': rng.choice(['all', 'first', 'first-two', 'odd']), 'recursive': rng.random() < 0.5,
            'options': [o for o in ['--continue', '--timestamping', '--preserve-permissions', '--no-remove-listing', '--retr-symlinks=off']
                        if rng.random() < 0.2],
            'mlsd': rng.random() < 0.3, 'concurrent': rng.choice([1, 1, 3]), 'second_run': rng.random() < 0.5,
            'symlinks': rng.random() < 0.4}


def run_ftpcrawl(case, part):
    from harness import servers, crawl, ftpserver
    tree = {'/': ['pub/', 'top.txt'], '/top.txt': b'top', '/pub/': ['file.bin', 'other.bin', 'sub/'], '/pub/file.bin': b'\x00\x01' * 40,
            '/pub/other.bin': b'o' * 10, '/pub/sub/': ['deep.txt'], '/pub/sub/deep.txt': b'deep'}
    if case.get('symlinks'):
        # symbolic links in the listings (with --retr-symlinks=off the crawler re-creates them locally instead of fetching)
        tree['/pub/'] = tree['/pub/'] + ['latest@', 'latest@', 'to-dir@', 'odd name@']
        tree['/pub/latest@'] = 'file.bin'
        tree['/pub/to-dir@'] = 'sub'
        tree['/pub/odd name@'] = '../top.txt'
        tree['/pub/sub/'] = tree['/pub/sub/'] + ['back@']
        tree['/pub/sub/back@'] = '..'
        part.count('ftp_crawls_with_symbolic_links')
    if case.get('many_dirs'):
        tree['/'] = tree['/'] + ['many/']
        tree['/many/'] = ['d%02d/' % i for i in range(case['many_dirs'])]
        for i in range(case['many_dirs']):
            tree['/many/d%02d/' % i] = ['file%02d.bin' % i]
            tree['/many/d%02d/file%02d.bin' % (i, i)] = b'data %d' % i
        part.count('ftp_crawls_over_many_directories')
    conn_of = {}
    import threading

    def affected(index):
        return {'all': True, 'first': index == 0, 'first-two': index < 2, 'odd': index % 2 == 1}[case['connections']]

    def on_connect(index):
        conn_of[threading.get_ident()] = index
        if case['at'] == 'connect' and affected(index):
            return case['act']

    def on_command(entry):
        if entry['cmd'] == case['at'] and affected(conn_of.get(threading.get_ident(), 0)):
            return case['act']
    addrs, port = servers.allocate_addresses(1, port=21)
    srv = ftpserver.FTPServer(tree, addrs[0], 21, mlsd=case['mlsd'], on_command=on_command, on_connect=on_connect).start()
    tmp = tempfile.mkdtemp(prefix='vc09f')
    import logging
    logging.disable(logging.NOTSET)
    try:
        db = os.path.join(tmp, 'crawl.db')
        argv = ['ftp://f.test' + p for p in case['start']] + ['--database', db, '-P', tmp, '--waitretry', '0', '--tries', '2', '--timeout', '2',
                                                               '--no-robots', '--concurrent', str(case['concurrent']), '--quiet'] + case['options']
        if case['recursive']:
            argv += ['-r', '--level', '3']
        res = crawl.run_app(argv, {'f.test': addrs[0]})
        if case.get('second_run') and not (res['crashed'] or res['exit_status'] in (None, 1)):
            # the same command over the files of the first run (--continue, --timestamping meet existing local files)
            part.count('ftp_crawl_second_runs')
            os.remove(db)
            res = crawl.run_app(argv, {'f.test': addrs[0]})
        rows = crawl.read_table(db) if os.path.exists(db) else []
    finally:
        logging.disable(logging.CRITICAL)
        srv.stop()
        shutil.rmtree(tmp, ignore_errors=True)
    part.count('ftp_crawls')
    part.count('ftp_crawl_fault_at_' + case['at'])
    replay = case
    unfinished = [r for r in rows if r['status'] in ('todo', 'in_progress')]
    if res['crashed'] or res['exit_status'] in (None, 1):
        last = re.findall(r'\n(\w+(?:\.\w+)*(?:Error|Exception)):', res['log'])
        files = re.findall(r'File "[^"]*/wpull/([^"]+)", line \d+, in (\w+)', res['log'])
        part.violation('ftpcrawl/{}/{}'.format(last[-1] if last else (res['exception'] or 'exit-1').split(':')[0], '{}:{}'.format(*files[-1]) if files else 'unknown'),
                       {'exit': res['exit_status'], 'exception': res['exception'], 'log': res['log'][-900:], 'at': case['at']}, replay)
    elif unfinished:
        # the crawl ended although URLs were still to be visited: an error left the per-URL handling
        last = re.findall(r'(\w+(?:Error|Exception)): ([^\n]{0,60})', res['log'])
        part.violation('ftpcrawl/ended-early/{}/fault-at-{}'.format(last[-1][0] if last else 'exit-%s' % res['exit_status'], case['at']),
                       {'exit': res['exit_status'], 'log': res['log'][-500:], 'unfinished': unfinished[:3]}, replay)
    else:
        part.count('ftp_crawl_completed')


RUNNERS = {'ftpcrawl': run_ftpcrawl, 'inject': run_inject, 'http': run_http, 'web': run_web, 'ftp': run_ftp, 'robots': run_robots, 'scrape': run_scrape, 'crawl': run_crawl_case}
GENERATORS = {'ftpcrawl': ftpcrawl_case, 'inject': inject_case, 'http': http_case, 'web': web_case, 'ftp': ftp_case, 'robots': robots_case, 'scrape': scrape_case, 'crawl': crawl_case}


def worker(job):
    import compat
    compat.install()
    import logging
    logging.disable(logging.CRITICAL)
    import warnings
    warnings.simplefilter('ignore')
    part = common.Part()
    if 'replay' in job:
        case = common.unjson(job['replay'])
        RUNNERS[case['entry']](case, part)
        part.evaluations += 1
        return part.dump()
    rng = random.Random(job['seed'])
    for entry, n in job['plan'].items():
        for i in range(n):
            if entry == 'ftp' and i < job.get('battery_per_job', 0):
                # directed part: this job's slice of the listing battery
                case = ftp_battery_case(rng, job.get('battery_offset', 0) + i)
                part.count('ftp_listing_battery_cases')
            else:
                case = GENERATORS[entry](rng)
            part.evaluations += 1
            import time
            t0 = time.time()
            RUNNERS[entry](case, part)
            if time.time() - t0 > 8:
                part.count('slow_cases_over_8s_' + entry)
                part.samples.insert(0, {'slow_case_seconds': round(time.time() - t0, 1),
                                        'case': common.jsonable({k: (v if not isinstance(v, bytes) else v[:300]) for k, v in case.items()})})
            part.nontrivial_case('{}/{}'.format(entry, common.jhash(case)))
            if i == 0:
                part.sample({k: (v if not isinstance(v, bytes) else v[:120]) for k, v in case.items()})
    return part.dump()


def main():
    check = common.Check('C09')
    check.rule = ('grammar-aware mutations (bit flips, deletions, duplications, special tokens, number tweaks, line swaps, truncation, '
                  'over-long lines, absurd lengths) of valid HTTP responses, redirect/cookie/auth headers, FTP replies and LIST/MLSD listings, '
                  'robots.txt, HTML/CSS/JS/sitemap documents with hostile Content-Type/charset, plus raw random bytes, all under random '
                  'segmentation, into 5 entry points; and end-to-end crawls (hostile URL + sentinel). distinct_nontrivial = distinct cases')
    check.assumptions = ['the handled error kinds are ServerError, ProtocolError, SSLVerificationError, NetworkError (checked against '
                         'wpull.processor.base.REMOTE_ERRORS by name)',
                         'TLS certificate failures are not produced (no CA / TLS peer in the sandbox)']
    target = 'checks.c09_hostile:worker'
    if check.args.replay:
        with open(check.args.replay) as f:
            rp = json.load(f)
        res = par.run_jobs(target, [{'seed': 0, 'replay': rp['replay']}], 1, timeout=300)
    else:
        mult = (60 if check.thorough else 2) * check.scale
        nj = check.jobs * (4 if check.thorough else 1)
        plan = {'inject': int(1600 * mult) // nj, 'http': int(4000 * mult) // nj, 'web': int(1600 * mult) // nj, 'ftp': int(2400 * mult) // nj,
                'robots': int(800 * mult) // nj, 'scrape': int(4000 * mult) // nj, 'crawl': max(1, int(192 * mult) // nj), 'ftpcrawl': max(1, int(192 * mult) // nj)}
        n_battery = (len(listing_battery()) + 5) // 6
        per_job = min(plan['ftp'], (n_battery + nj - 1) // nj)
        jobs = [{'seed': check.seed * 1000003 + i, 'plan': plan, 'battery_per_job': per_job, 'battery_offset': i * per_job}
                for i in range(nj)]
        res = par.run_jobs(target, jobs, check.jobs, timeout=7200 if check.thorough else 1200)
    # the oracle's list of handled kinds must still be what the processors use
    try:
        import compat
        compat.install()
        from wpull.processor.base import REMOTE_ERRORS
        names = tuple(e.__name__ for e in REMOTE_ERRORS)
        if set(names) != set(ALLOWED_NAMES):
            check.violation('remote-errors-set-changed', {'now': names, 'oracle': ALLOWED_NAMES})
    except Exception as e:
        check.note_inconclusive('cannot import REMOTE_ERRORS: {}'.format(e))
    for r in res:
        if '_error' in r:
            check.note_inconclusive('worker: ' + r['_error'] + ' ' + r.get('_stderr', '')[-400:])
        else:
            check.merge(r)
    check.finish(required_counters=() if check.args.replay else (
        'http_handled_error', 'ftp_handled_error', 'scrape_completed', 'robots_completed', 'web_completed', 'crawl_sentinel_done'))


if __name__ == '__main__':
    main()
