'''C10 - URL normalization yields a stable canonical form.

Monitor: the real wpull.url.URLInfo.parse is run on generated strings; an oracle over its
outputs checks idempotence, component stability, the canonical-form predicates and that
all members of a spelling-variant family normalize to one string.
'''
import random
import re
import sys

from harness import common, par

NETWORK_SCHEMES = ('http', 'https', 'ftp', 'ws', 'wss', 'gopher')
DEFAULT_PORTS = {'ftp': 21, 'gopher': 70, 'http': 80, 'https': 443, 'ws': 80, 'wss': 443}
ENCODINGS = ['utf-8', 'latin-1', 'shift_jis', 'cp1252', 'utf-16', 'ascii', 'koi8-r', 'big5',
             'iso-8859-15', 'cp437', 'iso2022_jp', 'iso2022_kr', 'iso2022_jp_2', 'hz', 'euc_jp', 'gb18030', 'utf-7', 'cp037', 'cp864',
             'iso2022_jp', 'iso2022_jp_1', 'iso2022_jp_3', 'iso2022_jp_ext']

HOST_LABELS = ['example', 'EXAMPLE', 'ExAmPlE', 'a', 'www', 'xn--nxasmq6b', 'bücher',
               'BÜCHER', '例え', 'straße', 'ａｂｃ', 'café',
               'İstanbul', 'KK', 'Ⅸ', 'a-b', '0', '1', '127', '0x7f', '0X7F',
               '017', '08', '１２７', '０ｘ７Ｆ', '256', '999', 'com',
               'test', 'localhost', 'σς', 'сайт']
HOST_DOTS = ['.', '.', '.', '。', '．', '｡']
PATH_SEGS = ['a', 'b', 'index.html', '.', '..', '', '%2e', '%2E', '%2e%2E', '%2F', '%2f', 'a%2Fb',
             '%25', '%', '%zz', '%aF', '%Af', '%af', '%AF', '%c3%a9', '%C3%A9', 'é', '日本',
             # text whose encoded bytes contain '%' followed by hex digits under some codecs (ISO-2022-JP katakana, cp864 U+066A)
             'メモ帳', 'ヤユ漢字', 'ムモ', 'メ', 'ユ帳', '50\u066aab', '\u066a41', 'a\u066a',
             'a b', ' ', '~', '%7e', '%7E', ';p', 'a;b=c', '...', '.a', 'a.', '\\', 'a\\b', '"',
             '<x>', '`', '{}', '|', '^', 'a:b', '@', 'x@y', '%00', '%0a', '%0D%0A', '\x7f', '\u0080',
             '​', ' ', '퟿', '*', "'", '(', ')', '!', '$', '&', '+', ',', '=', '[', ']']
QUERY_BITS = ['a=1', 'b', 'c=', '=d', 'a=1&a=2', 'q=a b', 'q=a+b', 'q=%20', 'x=%aF', 'x=%af', 'x=%AF',
              'é=ü', 'q=メモ帳', 'k=ヤユ漢', 'p=50\u066aab', 'x="y"', 'x=<>', 'x=`', '&', '&&', '=', 'a=b=c', 'a=%26', 'a=%3d', '?',
              '??', 'a/b', '/../', 'x=#', 'k=日', 'a=%', 'a=%z', '\x7f']
USERINFOS = ['', '', '', 'user@', 'user:pw@', ':pw@', 'u%40x:p%3Aw@', 'USER@', 'a b@', 'u:@', '%aa:%bb@',
             'ü:é@', 'a:b:c@', 'u%2F:p%2f@', 'us%0Aer:p%09w@', '%00:%1f@', 'u%0d%0a:x@', '%7f:%20@', 'u%1B:p@',
             # an encoded percent sign: decoding it once must not expose a new escape to the next reading
             'a%2541@', 'u:p%2541@', 'a%25@', '%2525:%25zz@', 'u%252F:x@']


def gen_ipv4_spelling(rng, addr=None):
    if addr is None:
        addr = [rng.choice([0, 1, 7, 8, 10, 127, 192, 255, rng.randrange(256)]) for _ in range(4)]
    kind = rng.randrange(7)
    if kind == 0:
        return '.'.join(str(p) for p in addr), addr
    if kind == 1:
        return '.'.join('0x%x' % p for p in addr), addr
    if kind == 2:
        return '.'.join('0X%X' % p for p in addr), addr
    if kind == 3:
        return '.'.join('0%o' % p for p in addr), addr
    if kind == 4:
        return str((addr[0] << 24) | (addr[1] << 16) | (addr[2] << 8) | addr[3]), addr
    if kind == 5:
        return '0x%x' % ((addr[0] << 24) | (addr[1] << 16) | (addr[2] << 8) | addr[3]), addr
    parts = []
    for p in addr:
        parts.append(rng.choice([str(p), '0x%x' % p, '0X%x' % p, '0%o' % p, '0x%X' % p]))
    return rng.choice(['.', '.', '。', '．']).join(parts), addr


def gen_ipv6_spelling(rng, groups=None):
    if groups is None:
        groups = [rng.choice([0, 0, 0, 1, 0xdb8, 0x2001, 0xffff, rng.randrange(65536)])
                  for _ in range(8)]
    kind = rng.randrange(4)
    if kind == 0:
        text = ':'.join('%x' % g for g in groups)
    elif kind == 1:
        text = ':'.join('%04X' % g for g in groups)
    elif kind == 2:
        import ipaddress
        text = ipaddress.IPv6Address(':'.join('%x' % g for g in groups)).compressed
        if rng.random() < 0.5:
            text = text.upper()
    else:
        import ipaddress
        text = ipaddress.IPv6Address(':'.join('%x' % g for g in groups)).exploded
    # IPv6 zone identifiers ([fe80::1%eth0]) are deliberately not generated: they are accepted only
    # because ipaddress.IPv6Address gained scope-id support in Python 3.9; on the interpreter wpull
    # targets they are rejected by the parser (library drift, see DESIGN "False alarms and corrections")
    return '[' + text + ']', groups


def gen_host(rng):
    r = rng.random()
    if r < 0.25:
        return gen_ipv4_spelling(rng)[0]
    if r < 0.35:
        return gen_ipv6_spelling(rng)[0]
    n = rng.choice([1, 2, 2, 3, 3, 4, 4, 5])
    labels = [rng.choice(HOST_LABELS) for _ in range(n)]
    out = labels[0]
    for lab in labels[1:]:
        out += rng.choice(HOST_DOTS) + lab
    if rng.random() < 0.1:
        out += '.'
    if rng.random() < 0.03:
        out = out + rng.choice(['"', '<', '^', '|', '{', '\x7f', ' ', '　', '_', '~', '!', '$', '*'])
    if rng.random() < 0.04:
        # compatibility characters that NFKC / IDNA mapping folds into URL delimiters (fullwidth solidus, question mark,
        # number sign, care-of sign ...): inside or after a label
        i = rng.randrange(1, len(out) + 1)
        out = out[:i] + rng.choice(FOLD_TO_DELIMITER) + out[i:]
    if rng.random() < 0.06:
        # characters that compatibility normalisation turns into one, two or three full stops (one dot leader, small full
        # stop, two dot leader, ellipsis) and the ideographic / fullwidth / halfwidth stops: in front of the first label,
        # after the last one, or inside the name - a label separator born during host mapping
        c = rng.choice(FOLD_TO_DOT)
        where = rng.choice(['front', 'front', 'back', 'inside'])
        if where == 'front':
            out = c + out
        elif where == 'back':
            out = out + c
        else:
            i = rng.randrange(1, len(out) + 1)
            out = out[:i] + c + out[i:]
    return out


FOLD_TO_DOT = ['\u2024', '\ufe52', '\u2024', '\ufe52', '\u2025', '\u2026', '\uff0e', '\u3002', '\uff61']
FOLD_TO_DELIMITER = ['\uff0f', '\uff1f', '\uff03', '\u2105', '\u2047', '\ufe56', '\ufe5f', '\u2100', '\u2048', '\uff20', '\uff1a',
                     '\uff3b', '\uff3c', '\uff05']
INTERIOR_CHARS = [chr(i) for i in range(0x20)] + ['\x1c', '\x1d', '\x1e', '\x1f', '\x7f', '\x85', '\xa0', '\u1680', '\u2028',
                                                     '\u2029', '\u3000', '\u200b', '\ufeff', '\xad']


def gen_structured(rng):
    scheme = rng.choice(NETWORK_SCHEMES)
    if rng.random() < 0.3:
        scheme = ''.join(c.upper() if rng.random() < 0.5 else c for c in scheme)
    host = gen_host(rng)
    port = ''
    r = rng.random()
    if r < 0.15:
        port = ':%d' % DEFAULT_PORTS[scheme.lower()]
    elif r < 0.3:
        port = ':' + rng.choice(['8080', '0', '1', '65535', '080', '+80', '00080', '443', '80', '21',
                                 '８０', '8_0', ' 80', ''])
    ui = rng.choice(USERINFOS)
    nseg = rng.choice([0, 1, 1, 2, 3, 4, 6])
    path = ''
    for _ in range(nseg):
        path += '/' + rng.choice(PATH_SEGS)
    if rng.random() < 0.3:
        path += '/'
    query = ''
    if rng.random() < 0.4:
        query = '?' + '&'.join(rng.choice(QUERY_BITS) for _ in range(rng.choice([1, 1, 2, 3])))
    frag = ''
    if rng.random() < 0.2:
        frag = '#' + rng.choice(['', 'top', 'a b', '%aF', 'é', '#', '?x'])
    sep = '://' if rng.random() < 0.93 else rng.choice([':', ':/', ':///'])
    url = scheme + sep + ui + host + port + path + query + frag
    if rng.random() < 0.08:
        # a control / separator / space character at an interior position of any component (every C0 value, DEL,
        # C1 NEL, the Unicode spaces and line separators)
        i = rng.randrange(len(scheme) + len(sep), len(url) + 1)
        url = url[:i] + rng.choice(INTERIOR_CHARS) + url[i:]
    if rng.random() < 0.05:
        url = rng.choice([' ', '\t', '\n', '　', ' ']) + url + rng.choice([' ', '\n', ''])
    return url


SOUP = list('abcXYZ019.:/?#@[]%\\ +&=-_~') + ['%2e', '%2F', '%aF', 'é', '。', '．',
                                                  '0x', '::', '//', '..', 'ß', '０', '\u2024', '\ufe52']


def gen_soup(rng):
    n = rng.randrange(1, 24)
    s = ''.join(rng.choice(SOUP) for _ in range(n))
    if rng.random() < 0.7:
        s = rng.choice(['http://', 'https://', 'ftp://', 'HTTP://', 'http:', '//', 'ws://']) + s
    return s


# ---------------------------------------------------------------- variant families
def gen_family(rng):
    '''Return (description, [spellings]) that must all normalize to one string.  Differences
    are restricted to the ones the property statement names: scheme/host case, default port,
    dot segments, empty segments, fragment, escape case, IPv4/IPv6 notation.'''
    scheme = rng.choice(['http', 'https', 'ftp'])
    kind = rng.randrange(3)
    if kind == 0:
        labels = [rng.choice(['example', 'www', 'a', 'test', 'com', 'b-c', 'x1']) for _ in
                  range(rng.choice([1, 2, 3]))]
        if all(lab.isdigit() for lab in labels):
            labels.append('com')
        host_variants = lambda r: '.'.join(  # noqa
            ''.join(c.upper() if r.random() < 0.5 else c for c in lab) for lab in labels)
        hostdesc = 'name'
    elif kind == 1:
        addr = [rng.randrange(256) for _ in range(4)]
        host_variants = lambda r: gen_ipv4_spelling(r, addr)[0]  # noqa
        hostdesc = 'ipv4'
    else:
        groups = [rng.choice([0, 0, 1, 0xdb8, rng.randrange(65536)]) for _ in range(8)]

        def host_variants(r):
            while True:
                text = gen_ipv6_spelling(r, groups)[0]
                if '%' not in text:
                    return text
        hostdesc = 'ipv6'
    segs = [rng.choice(['a', 'b', 'dir', 'index.html', 'x%2Fy', '%7E', '%C3%A9', 'q;r', 'a.b', '~u'])
            for _ in range(rng.choice([0, 1, 2, 3]))]
    trailing = rng.random() < 0.4 and bool(segs)
    query = rng.choice(['', '', 'a=1', 'a=%2F&b=%C3%A9', 'x'])
    explicit_port = rng.choice([None, None, 8080, 81])
    spellings = []
    for i in range(rng.choice([4, 6, 8])):
        r = random.Random(rng.random())
        sch = ''.join(c.upper() if r.random() < 0.4 else c for c in scheme)
        host = host_variants(r)
        if explicit_port:
            port = ':%d' % explicit_port
        else:
            port = r.choice(['', ':%d' % DEFAULT_PORTS[scheme]])
        parts = []
        for seg in segs:
            x = r.random()
            if x < 0.2:
                parts.append('.')
            elif x < 0.4:
                parts.extend([r.choice(['zz', 'tmp']), '..'])
            elif x < 0.5:
                parts.append('')
            elif x < 0.58:
                # an empty segment right in front of a parent reference: '/tmp//../' is '/tmp/../' with a doubled slash
                parts.extend([r.choice(['zz', 'tmp']), '', '..'])
            # escape case variation only in the hex digits
            seg2 = re.sub(r'%[0-9A-F]{2}',
                          lambda m: m.group(0).lower() if r.random() < 0.5 else (
                              '%' + m.group(0)[1].lower() + m.group(0)[2]
                              if r.random() < 0.5 else m.group(0)), seg)
            parts.append(seg2)
        path = '/' + '/'.join(parts) if parts else r.choice(['', '/'])
        if trailing:
            # a final '/.' or '/x/..' is deliberately not used: whether it keeps the trailing slash is
            # not fixed by the statement (wpull drops it; RFC 3986 keeps it)
            path += r.choice(['/', '/', '//', '/./', '/x/../'])
        if not segs and r.random() < 0.3:
            path = r.choice(['/.', '/./', '/..', '/../', '//', '/'])
        q = query
        if q:
            q = '?' + re.sub(r'%[0-9A-F]{2}', lambda m: m.group(0).lower() if r.random() < 0.5
                             else m.group(0), q)
        frag = r.choice(['', '', '#', '#frag', '#a/b?c'])
        spellings.append(sch + '://' + host + port + path + q + frag)
    return {'host': hostdesc, 'n': len(spellings)}, spellings


# ---------------------------------------------------------------- oracle
HEX = '0123456789ABCDEFabcdef'


def form_problems(n, info):
    '''Canonical-form predicates of the statement on the normalized string and components.'''
    probs = []
    try:
        n.encode('ascii')
    except UnicodeEncodeError:
        probs.append(('form/non-ascii', None))
    if any(ord(c) <= 0x20 for c in n) or any(c.isspace() for c in n):
        probs.append(('form/whitespace-or-c0', None))
    m = re.match(r'^([^:/?#]+)://', n)
    if not m:
        probs.append(('form/no-scheme-prefix', None))
    elif m.group(1) != m.group(1).lower():
        probs.append(('form/scheme-case', None))
    if info.hostname != info.hostname.lower():
        probs.append(('form/host-case', info.hostname))
    rest = n[m.end():] if m else n
    authority = re.split(r'[/?#]', rest, 1)[0]
    hostport = authority.rsplit('@', 1)[-1]
    if hostport != hostport.lower():
        probs.append(('form/host-case-in-url', hostport))
    default = DEFAULT_PORTS.get(info.scheme)
    if re.search(r':%d$' % default, hostport) and not hostport.endswith(']'):
        probs.append(('form/default-port-kept', hostport))
    path = info.path
    if not path.startswith('/'):
        probs.append(('form/path-not-absolute', path))
    segs = path.split('/')[1:]
    for i, seg in enumerate(segs):
        if seg in ('.', '..'):
            probs.append(('form/dot-segment', path))
            break
        if seg == '' and i != len(segs) - 1:
            probs.append(('form/empty-segment', path))
            break
    for comp_name in ('path', 'query'):
        comp = getattr(info, comp_name) or ''
        for mm in re.finditer(r'%([0-9A-Fa-f]{2})', comp):
            if mm.group(1) != mm.group(1).upper():
                probs.append(('form/escape-case-' + comp_name, comp))
                break
    for mm in re.finditer(r'%([0-9A-Fa-f]{2})', n):
        if mm.group(1) != mm.group(1).upper():
            probs.append(('form/escape-case-url', n))
            break
    return probs


def ascii_compatible(encoding):
    probe = 'az09/%?&=.:@-_~'
    try:
        return probe.encode(encoding) == probe.encode('ascii')
    except (LookupError, UnicodeError):
        return False


class _Keyed(object):
    '''Adds the mechanism qualifier to violation keys for one input.'''
    def __init__(self, part, qualifier):
        self.part = part
        self.qualifier = qualifier

    def violation(self, key, detail=None, replay=None):
        if self.qualifier:
            key = self.qualifier
        self.part.violation(key, detail, replay)

    def __getattr__(self, name):
        return getattr(self.part, name)


def check_one(URLInfo, url, encoding, part):
    '''Returns normalized string or None.'''
    if not ascii_compatible(encoding):
        # every symptom under such an encoding has one mechanism: components are percent-encoded
        # from text.encode(encoding), which is not ASCII transparent (BOM, NUL padding)
        part = _Keyed(part, 'source-encoding-not-ascii-compatible')
        part.count('inputs_non_ascii_compatible_encoding')
    try:
        info = URLInfo.parse(url, encoding=encoding)
    except ValueError:
        part.count('rejected_by_parser')
        return None
    if info is None or info.scheme not in DEFAULT_PORTS:
        part.count('non_network_scheme')
        return None
    n = info.url
    part.count('normalized')
    replay = {'url': url, 'encoding': encoding}
    try:
        info2 = URLInfo.parse(n, encoding=encoding)
    except ValueError as e:
        part.violation('reparse-rejected/' + classify_host(info), {'url': url, 'normalized': n,
                                                                   'error': repr(e)}, replay)
        return n
    n2 = info2.url
    if n2 != n and encoding.replace('-', '').lower() != 'utf8' and \
            (info.hostname, info.port, info.path, info.query) == \
            (info2.hostname, info2.port, info2.path, info2.query) and \
            any(ord(c) > 0x7f for c in (info.username or '') + (info.password or '')):
        # mechanism: URLInfo.url re-encodes user name / password as UTF-8 although they were
        # percent-decoded with the source encoding
        part.violation('userinfo-reencoded-utf8-under-other-source-encoding',
                       {'url': url, 'encoding': encoding, 'normalized': n, 'renormalized': n2}, replay)
    elif n2 != n:
        part.violation('not-idempotent/' + diff_component(info, info2),
                       {'url': url, 'encoding': encoding, 'normalized': n, 'renormalized': n2}, replay)
    for comp in ('scheme', 'hostname', 'port', 'path', 'query'):
        if getattr(info, comp) != getattr(info2, comp):
            part.violation('component-unstable/' + comp + '/' + classify_host(info),
                           {'url': url, 'normalized': n, comp: [getattr(info, comp),
                                                                getattr(info2, comp)]}, replay)
            break
    for key, detail in form_problems(n, info):
        part.violation(key + '/' + classify_host(info), {'url': url, 'encoding': encoding,
                                                         'normalized': n, 'detail': detail}, replay)
    if n != url:
        part.nontrivial_case(n)
    return n


def classify_host(info):
    h = info.hostname or ''
    if info.is_ipv6():
        return 'ipv6-zone' if '%' in h else 'ipv6'
    if re.match(r'^[0-9.]+$', h):
        return 'ipv4'
    if re.match(r'^(0x[0-9a-f]*|[0-9]+)(\.(0x[0-9a-f]*|[0-9]+))*\.?$', h):
        return 'numeric-host'
    return 'name'


def diff_component(a, b):
    for comp in ('scheme', 'hostname', 'port', 'path', 'query', 'username', 'password'):
        if getattr(a, comp) != getattr(b, comp):
            return comp + '/' + classify_host(a)
    return 'string-only/' + classify_host(a)


def worker(job):
    import compat
    compat.install()
    from wpull.url import URLInfo
    part = common.Part()
    rng = random.Random(job['seed'])
    if 'replay' in job:
        rp = job['replay']
        if 'schemeless_family' in rp:
            outs = {}
            for sp in rp['schemeless_family']:
                try:
                    info = URLInfo.parse(sp, default_scheme='http')
                    outs.setdefault((info.scheme, info.url), []).append(sp)
                except ValueError as e:
                    outs.setdefault(('ValueError', repr(e)[:60]), []).append(sp)
            if len(outs) > 1 or any(k[0] != 'http' for k in outs):
                part.violation('schemeless-family-not-unified/replay', {'outputs': {str(k): v for k, v in outs.items()}}, rp)
        elif 'family' in rp:
            check_family(URLInfo, rp['family'], rp.get('desc'), part)
        else:
            check_one(URLInfo, rp['url'], rp.get('encoding', 'utf-8'), part)
        part.evaluations += 1
        return part.dump()
    for i in range(job['n_strings']):
        r = rng.random()
        if r < 0.75:
            url = gen_structured(rng)
            cls = 'structured'
        else:
            url = gen_soup(rng)
            cls = 'soup'
        encoding = 'utf-8' if rng.random() < 0.7 else rng.choice(ENCODINGS)
        part.evaluations += 1
        part.count('class_' + cls)
        n = check_one(URLInfo, url, encoding, part)
        if n is not None and i % 997 == 0:
            part.sample({'input': url, 'encoding': encoding, 'normalized': n})
    for i in range(job['n_families']):
        desc, spellings = gen_family(rng)
        part.evaluations += 1
        part.count('families')
        part.count('family_host_' + desc['host'])
        res = check_family(URLInfo, spellings, desc, part)
        if i % 499 == 0 and res:
            part.sample({'family': spellings, 'normalized': sorted(res)})
    # scheme-less "host:port/path" forms, as start URLs are given on the command line (parsed with a default scheme): the
    # spellings differ in the case of the host only
    for i in range(job.get('n_families', 0) // 4):
        labels = rng.choice([['localhost'], ['localhost'], ['example', 'com'], ['a', 'b', 'test']])   # (another single label would be read as a scheme)
        port = rng.choice(['', ':8080', ':80', ':8443'])
        if len(labels) == 1 and labels[0] != 'localhost' and not port:
            port = ':8080'
        path = rng.choice(['', '/', '/x', '/a/b.html?q=1'])
        spellings = []
        for _ in range(4):
            host = '.'.join(''.join(c.upper() if rng.random() < 0.5 else c for c in lab) for lab in labels)
            spellings.append(host + port + path)
        spellings.append('.'.join(labels) + port + path)
        outs = {}
        for sp in spellings:
            try:
                info = URLInfo.parse(sp, default_scheme='http')
                outs.setdefault((info.scheme, info.url), []).append(sp)
            except ValueError as e:
                outs.setdefault(('ValueError', repr(e)[:60]), []).append(sp)
        part.evaluations += 1
        part.count('schemeless_families')
        if len(outs) > 1 or any(k[0] != 'http' for k in outs):
            part.violation('schemeless-family-not-unified/' + ('localhost' if labels == ['localhost'] else 'name'),
                           {'outputs': {str(k): v for k, v in outs.items()}}, {'schemeless_family': spellings})
    return part.dump()


def check_family(URLInfo, spellings, desc, part):
    outs = {}
    for s in spellings:
        try:
            info = URLInfo.parse(s)
            outs.setdefault(info.url, []).append(s)
        except ValueError as e:
            part.violation('family-member-rejected/' + str((desc or {}).get('host')),
                           {'spelling': s, 'error': repr(e), 'family': spellings},
                           {'family': spellings, 'desc': desc})
    part.count('family_members', len(spellings))
    if len(outs) > 1:
        part.violation('family-not-unified/' + family_diff_kind(outs) + '/' +
                       str((desc or {}).get('host')), {'outputs': outs},
                       {'family': spellings, 'desc': desc})
    if len(outs) >= 1 and len(set(spellings)) > 1:
        part.nontrivial_case('fam:' + common.jhash(sorted(spellings)))
    return list(outs)


def family_diff_kind(outs):
    keys = sorted(outs)
    a, b = keys[0], keys[1]
    if a.lower() == b.lower():
        if re.sub(r'%[0-9a-fA-F]{2}', lambda m: m.group(0).upper(), a) == \
                re.sub(r'%[0-9a-fA-F]{2}', lambda m: m.group(0).upper(), b):
            return 'escape-case'
        return 'case'
    ha = re.match(r'^[a-z]+://([^/?#]*)', a)
    hb = re.match(r'^[a-z]+://([^/?#]*)', b)
    if ha and hb and ha.group(1) != hb.group(1):
        return 'host'
    return 'path-or-query'


def main():
    check = common.Check('C10')
    check.rule = ('strings from a structured URL grammar (host classes: names under IDNA/NFKC mapping, '
                  'numeric/hex/octal IPv4 spellings, IPv6 spellings; userinfo; encoded delimiters/dots; '
                  'mixed-case escapes; non-ASCII under 10 source encodings), bracket/colon soup, and variant '
                  'families; distinct_nontrivial = distinct normalized outputs whose input differs from '
                  'the output, plus distinct families with >1 spelling')
    check.assumptions = ['oracle predicates are those named in the C10 statement; percent-encoded dots '
                         '(%2E) are not treated as dot segments']
    if check.args.replay:
        import json
        with open(check.args.replay) as f:
            rp = json.load(f)
        res = par.run_jobs('checks.c10_urlnorm:worker', [{'seed': 0, 'replay': rp['replay']}], 1)
    else:
        total = int((20000000 if check.thorough else 200000) * check.scale)
        fams = int((200000 if check.thorough else 2000) * check.scale)
        nj = check.jobs * (8 if check.thorough else 1)
        jobs = [{'seed': check.seed * 1000003 + i, 'n_strings': total // nj, 'n_families': fams // nj}
                for i in range(nj)]
        res = par.run_jobs('checks.c10_urlnorm:worker', jobs, check.jobs,
                           timeout=7200 if check.thorough else 600)
    for r in res:
        if '_error' in r:
            check.note_inconclusive('worker: ' + r['_error'] + ' ' + r.get('_stderr', '')[-300:])
        else:
            check.merge(r)
    check.finish(required_counters=() if check.args.replay else ('normalized', 'family_members'))


if __name__ == '__main__':
    main()
