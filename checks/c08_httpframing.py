'''C08 - HTTP/1.1 responses are delimited per RFC 7230 whatever the segmentation.

Monitor: the real Client/Session/Stream/ConnectionPool/Connection run against a reactive scripted
peer (response k+1 is fed only after request k+1 was written).  For every generated response
sequence the result of every exchange is compared (a) with an independent RFC 7230 reference
decoder and (b) across segmentations of the byte stream.
'''
import json
import random
import re

from harness import common, par, httpgen, refhttp


ISOLATED = ['interim', 'obs-text', 'overrun0']
POISON_KEY = 'overrun-surplus-not-in-a-body-read-poisons-next-response'


def norm_ws(v):
    return re.sub(r'[ \t\r\n]+', ' ', v).strip()


def summarize(out):
    return (out.get('error'), out.get('status'), out.get('reason'),
            tuple(out.get('fields') or ()), out.get('body'))


def compare_with_reference(out, ref, resp, errors_ok):
    '''Return list of (what, detail).'''
    probs = []
    if ref['state'] != 'complete':
        return probs
    if out['error'] == 'STALL':
        return [('stall', 'client still waiting after the complete response was delivered')]
    if 'coding_error' in ref:
        if out['error'] is None:
            probs.append(('coding-error-accepted', ref['coding_error']))
        elif not errors_ok(out):
            probs.append(('wrong-error-kind', out['error']))
        return probs
    if out['error'] is not None:
        return [('unexpected-error', '{} in {}: {}'.format(out['error'], out['phase'], out.get('error_text')))]
    if out['status'] != ref['status']:
        probs.append(('status', [out['status'], ref['status']]))
    if (out.get('reason') or '').strip() != ref['reason'].strip():
        probs.append(('reason', [out.get('reason'), ref['reason']]))
    got = [(n, norm_ws(v)) for n, v in out.get('fields') or []]
    want = [(n, norm_ws(v)) for n, v in ref['fields']]
    if sorted(got) != sorted(want):
        probs.append(('fields', {'got': got, 'want': want}))
    else:
        # order of values of one name must be preserved
        for name in set(n for n, v in want):
            if [v for n, v in got if n == name] != [v for n, v in want if n == name]:
                probs.append(('field-order', name))
    if out['body'] != ref['body']:
        probs.append(('body', {'got_len': len(out['body']), 'want_len': len(ref['body']),
                               'got_head': out['body'][:40], 'want_head': ref['body'][:40]}))
    return probs


def worker(job):
    import compat
    compat.install()
    from harness import httpdrive
    from wpull.errors import NetworkError, ProtocolError
    part = common.Part()
    rng = random.Random(job['seed'])

    def errors_ok(out):
        e = out.get('error_obj')
        return isinstance(e, (NetworkError, ProtocolError))

    mode = {'ignore_length': False, 'rate_limited': False}

    def run(seq_pieces):
        responses = [{'pieces': p, 'then': t, 'method': m} for p, t, m in seq_pieces]
        kwargs = None
        if mode['ignore_length']:
            # --ignore-length: a Content-Length field is not trusted, such bodies are read until the connection closes;
            # every other framing rule is unchanged
            import functools
            from wpull.protocol.http.stream import Stream
            kwargs = {'stream_factory': functools.partial(Stream, ignore_length=True)}
        outcomes, peer, net = httpdrive.run_sequence(responses, client_kwargs=kwargs, rate_limited=mode['rate_limited'])
        part.count('sequence_runs')
        return outcomes, peer, net

    def check_sequence(seq, replay_base):
        # interim 1xx responses are complete bodiless messages that precede the response to the request
        refs = [refhttp.decode(r['wire'][r.get('interim_len', 0):], r['method'], eof=(r['then'] == 'eof'))
                for r in seq]
        for r, ref in zip(seq, refs):
            # self-check of the trusted base: reference decoder vs generator's construction
            if ref['state'] != 'complete' or ref.get('status') != r['expect']['status'] or \
                    ref.get('body') != r['expect']['body']:
                part.inconclusive.append('reference decoder disagrees with generator: ' +
                                         json.dumps(common.jsonable(r['classes'])))
                return
        base = None
        poison_from = None
        for i, r in enumerate(seq):
            if r['classes']['framing'] == 'overrun0':
                poison_from = i + 1
        for j, r in enumerate(seq):
            fkey = r['classes']['framing']
            if poison_from is not None and j >= poison_from:
                continue
            for seg_class, pieces in httpgen.segmentations(
                    rng, r['wire'], r['boundaries'], n_random=job['n_random'],
                    every_cut_limit=job['every_cut_limit']):
                if base is not None and seg_class == 'whole':
                    continue
                seq_pieces = [([x['wire']] if i != j else pieces, x['then'], x['method'])
                              for i, x in enumerate(seq)]
                outcomes, peer, net = run(seq_pieces)
                part.evaluations += 1
                part.count('seg_' + seg_class)
                part.nontrivial_case('{}/{}/{}/{}/pos{}of{}'.format(
                    fkey, r['classes']['coding'], r['classes']['style'], seg_class, j, len(seq)))
                replay = dict(replay_base, segment_index=j, pieces=pieces, seg_class=seg_class)
                summ = [summarize(o) for o in outcomes][:poison_from]
                if base is None:
                    base = summ
                    # reference comparison on the baseline run
                    for i, (o, ref, x) in enumerate(zip(outcomes, refs, seq)):
                        part.count('exchanges_compared_with_reference')
                        if poison_from is not None and i >= poison_from:
                            # successor of a zero-length response with surplus: the surplus is never read
                            if compare_with_reference(o, ref, x, errors_ok):
                                part.violation(POISON_KEY, {'exchange': i, 'after': 'Content-Length: 0 + surplus',
                                                            'got': repr(summarize(o))[:300]}, replay)
                            else:
                                part.count('overrun0_successor_parsed_correctly')
                            break
                        for what, detail in compare_with_reference(o, ref, x, errors_ok):
                            prev = seq[i - 1]['classes']['framing'] if i else None
                            key = 'ref-mismatch/{}/{}'.format(what, x['classes']['framing'])
                            if what in ('fields', 'field-order', 'reason'):
                                key += '/' + x['classes']['style']
                            if x['classes']['framing'] == 'interim' and o.get('status') in (100, 103):
                                # mechanism: the interim 1xx message is returned as the response
                                key = 'interim-1xx-returned-as-the-response'
                            if x['classes']['framing'] == 'obs-text' and what == 'fields' and \
                                    [v for n, v in o.get('fields') or [] if n == 'x-obs'] == ['caf\xe9 next\xa0end']:
                                # mechanism: field lines are split with str.splitlines(), which also splits at 0x85
                                key = 'field-value-split-at-obs-text-0x85'
                            part.violation(key, {'exchange': i, 'detail': detail, 'classes': x['classes'],
                                                 'previous_framing': prev}, replay)
                        # framing side conditions observable at the peer
                        if i + 1 < len(outcomes) and x['classes']['framing'] == 'overrun' and \
                                o['error'] is None:
                            if outcomes[i + 1].get('conn_id') == o.get('conn_id'):
                                part.violation('overrun-connection-reused', {'exchange': i}, replay)
                            else:
                                part.count('overrun_followed_by_new_connection')
                        if i + 1 < len(outcomes) and x['classes'].get('conn_close_linger') and o['error'] is None and \
                                outcomes[i + 1].get('conn_id') is not None:
                            if outcomes[i + 1].get('conn_id') == o.get('conn_id'):
                                part.violation('connection-reused-after-connection-close-response/' + x['classes']['framing'],
                                               {'exchange': i}, replay)
                            else:
                                part.count('connection_close_response_followed_by_new_connection')
                        if o['error'] is None and x['then'] == 'keep' and o.get('buffered_after') and \
                                x['classes']['framing'] not in ('overrun', 'overrun0', 'interim'):
                            part.violation('bytes-left-unread/' + x['classes']['framing'],
                                           {'exchange': i, 'left': o['buffered_after']}, replay)
                    if len(outcomes) < len(seq):
                        part.count('sequences_cut_short_by_stall')
                else:
                    if summ != base:
                        # first differing exchange
                        k = next((i for i in range(min(len(summ), len(base))) if summ[i] != base[i]),
                                 min(len(summ), len(base)))
                        key = 'segmentation-dependent/{}/{}'.format(fkey, seg_class)
                        body_end = len(r['wire']) - r['surplus']
                        ends = set()
                        acc = 0
                        for piece in pieces:
                            acc += len(piece)
                            ends.add(acc)
                        if fkey == 'interim' and base[j][1] in (100, 103):
                            key = 'interim-1xx-returned-as-the-response'
                        if fkey == 'overrun' and k > j and body_end in ends and summ[:j + 1] == base[:j + 1]:
                            # mechanism: the surplus arrives in a later read than the last body byte, so the
                            # overrun is never seen; the bytes stay buffered and are parsed as the next response
                            key = POISON_KEY
                        part.violation(key,
                                       {'segmented_exchange': j, 'differs_at': k,
                                        'with_whole': repr(base[k] if k < len(base) else None)[:300],
                                        'segmented': repr(summ[k] if k < len(summ) else None)[:300],
                                        'classes': r['classes']}, replay)
                    else:
                        part.count('same_result_as_unsegmented')

    def check_truncations(r, replay_base):
        wire = r['wire']
        points = sorted(set(r['boundaries'] + [rng.randrange(1, len(wire)) for _ in range(job['n_trunc'])]))
        for p in points:
            prefix = wire[:p]
            ref = refhttp.decode(prefix, r['method'], eof=True)
            for seg_class, pieces in (('whole', [prefix]), ('bytes', [prefix[i:i + 1] for i in range(len(prefix))])):
                outcomes, peer, net = run([(pieces, 'eof', r['method'])])
                o = outcomes[0]
                part.evaluations += 1
                part.count('truncation_runs')
                fkey = r['classes']['framing']
                replay = dict(replay_base, truncated_at=p, pieces=pieces)
                part.nontrivial_case('trunc/{}/{}/{}'.format(fkey, r['classes']['coding'],
                                                             'head' if p < r['head_len'] else 'body'))
                if ref['state'] == 'truncated':
                    part.count('truncated_by_reference')
                    if o['error'] is None:
                        part.violation('truncated-accepted/{}/{}'.format(fkey, ref.get('where', '?').replace(' ', '-')),
                                       {'cut_at': p, 'of': len(wire), 'got_body_len': len(o['body']),
                                        'classes': r['classes']}, replay)
                    elif o['error'] == 'STALL':
                        part.violation('stall-on-truncated/' + fkey, {'cut_at': p}, replay)
                    elif not errors_ok(o):
                        part.violation('truncated-wrong-error/{}/{}'.format(fkey, o['error']),
                                       {'cut_at': p, 'error': o.get('error_text')}, replay)
                    else:
                        part.count('truncation_reported_as_error')
                elif ref['state'] == 'complete' and not ref.get('trailer_cut'):
                    for what, detail in compare_with_reference(o, ref, r, errors_ok):
                        part.violation('ref-mismatch-on-prefix/{}/{}'.format(what, fkey),
                                       {'cut_at': p, 'detail': detail, 'classes': r['classes']}, replay)
                else:
                    part.count('truncation_dont_care')

    def check_stall(r, replay_base):
        '''The peer stops sending in the middle of the message and stays silent: the client's read timeout ends the exchange,
        which must be reported as an error whatever the framing (also for a body that is delimited by the connection's end).'''
        wire = r['wire']
        body_points = [p for p in r['boundaries'] if p > r['head_len']] or [len(wire) - 1]
        p = rng.choice(body_points + [len(wire) - 1])
        if not 0 < p < len(wire) and r['then'] != 'eof':
            return
        p = max(1, min(p, len(wire) - (0 if r['then'] == 'eof' else 1)))
        responses = [{'pieces': [wire[:p]], 'then': 'hang', 'method': r['method']}]
        outcomes, peer, net = httpdrive.run_sequence(responses, read_timeout=0.15)
        o = outcomes[0]
        part.evaluations += 1
        part.count('stall_runs')
        fkey = r['classes']['framing']
        replay = dict(replay_base, stalled_at=p)
        part.nontrivial_case('stall/{}/{}'.format(fkey, r['classes']['coding']))
        ref = refhttp.decode(wire[:p], r['method'], eof=False)
        if ref['state'] == 'complete' and r['then'] != 'eof':
            part.count('stall_after_complete_message')
            return
        if o['error'] is None:
            part.violation('silent-peer-accepted-as-end-of-message/' + fkey,
                           {'sent': p, 'of': len(wire), 'got_body_len': len(o['body']), 'classes': r['classes']}, replay)
        elif o['error'] == 'STALL':
            part.violation('read-timeout-never-fired/' + fkey, {'sent': p}, replay)
        elif not errors_ok(o):
            part.violation('stall-wrong-error/{}/{}'.format(fkey, o['error']), {'error': o.get('error_text')}, replay)
        else:
            part.count('stall_reported_as_error')

    if 'replay' in job:
        rp = common.unjson(job['replay'])
        seq = rp['seq']
        mode['ignore_length'] = bool(rp.get('ignore_length'))
        mode['rate_limited'] = bool(rp.get('rate_limited'))
        if 'stalled_at' in rp:
            check_stall(seq[0], {'seq': seq})
        elif 'truncated_at' in rp:
            check_truncations(seq[0], {'seq': seq})
        else:
            check_sequence(seq, {'seq': seq})
        return part.dump()

    core = ['length', 'length', 'chunked', 'chunked', 'close', 'length0', 'te+cl', 'overrun', 'nobody', 'head']
    for n in range(job['n']):
        k = rng.choice([1, 1, 2, 3, 4, 5])
        allow = None if rng.random() < 0.35 else core
        mode['ignore_length'] = False
        # a fifth of the sequences run as under --limit-rate (connections carry a bandwidth limiter)
        mode['rate_limited'] = rng.random() < 0.2
        if mode['rate_limited']:
            part.count('sequences_rate_limited')
        if rng.random() < 0.12:
            # one sequence in eight with --ignore-length (each response then ends with the connection)
            mode['ignore_length'] = True
            seq = []
            for i in range(k):
                r = httpgen.gen_response(rng, allow=['length', 'chunked', 'chunked', 'close', 'length0', 'chunked-case', 'x-gzip', 'nobody',
                                                     'head', 'te+cl'])
                r['then'] = 'eof'
                r['classes']['ignore_length'] = True
                seq.append(r)
            check_sequence(seq, {'seq': seq, 'ignore_length': True})
            part.count('sequences_with_ignore_length')
            mode['ignore_length'] = False
            continue
        seq = []
        for i in range(k):
            r = httpgen.gen_response(rng, allow=allow)
            seq.append(r)
            if r['then'] == 'eof' and rng.random() < 0.5:
                break
        if rng.random() < 0.25:
            # classes that reading predicted to deviate are only ever the LAST response of a sequence, so that
            # one mechanism cannot corrupt the judgement of later exchanges
            if seq[-1]['then'] == 'eof':
                seq.pop()
            seq.append(httpgen.gen_response(rng, allow=ISOLATED))
            if seq[-1]['classes']['framing'] == 'overrun0':
                # one plain successor to witness whether the unread surplus poisons the connection
                seq.append(httpgen.gen_response(rng, allow=['length']))
        check_sequence(seq, {'seq': seq, 'rate_limited': mode['rate_limited']})
        if n % 7 == 0:
            part.sample({'sequence': [r['classes'] for r in seq], 'first_wire': seq[0]['wire'][:160]})
        # truncations of a single response
        r = httpgen.gen_response(rng, allow=['length', 'chunked', 'close', 'te+cl', 'overrun'])
        check_truncations(r, {'seq': [r]})
        if n % 4 == 0:
            r = httpgen.gen_response(rng, allow=['length', 'chunked', 'close', 'close', 'close'])
            check_stall(r, {'seq': [r]})
    return part.dump()


def main():
    check = common.Check('C08')
    check.rule = ('response sequences (1-5 lockstep exchanges per address) from a grammar: framing {length, zero length, '
                  'chunked with extensions/trailers/hex case/leading zeros, close, TE+CL, overrun, 204/304, HEAD (with and '
                  'without framing fields)} x 9 header spellings x {identity, gzip, deflate zlib/raw} x bodies; every '
                  'response under whole / all-single-byte / every grammar boundary +-1 / random segmentations; truncation '
                  'prefixes at every boundary. distinct_nontrivial = distinct (framing, coding, header style, segmentation '
                  'class, position in connection)')
    check.assumptions = ['refhttp (RFC 7230 3.3.3) is the reference; "body complete, final CRLF/trailer cut" is a don\'t-care',
                         'a client that has not finished 400 loop iterations after the complete response was delivered in '
                         'memory is stalled (logical steps, not wall-clock)']
    target = 'checks.c08_httpframing:worker'
    if check.args.replay:
        with open(check.args.replay) as f:
            rp = json.load(f)
        jobs = [{'seed': 0, 'replay': rp['replay'], 'n_random': 2, 'every_cut_limit': 0, 'n_trunc': 2}]
        res = par.run_jobs(target, jobs, 1)
    else:
        total = int((6400 if check.thorough else 480) * check.scale)
        nj = check.jobs * (4 if check.thorough else 1)
        jobs = [{'seed': check.seed * 1000003 + i, 'n': max(1, total // nj), 'n_random': 4 if check.thorough else 2,
                 'every_cut_limit': 700 if check.thorough else 90, 'n_trunc': 6 if check.thorough else 2}
                for i in range(nj)]
        res = par.run_jobs(target, jobs, check.jobs, timeout=7200 if check.thorough else 900)
    for r in res:
        if '_error' in r:
            check.note_inconclusive('worker: ' + r['_error'] + ' ' + r.get('_stderr', '')[-400:])
        else:
            check.merge(r)
    check.finish(required_counters=() if check.args.replay else (
        'exchanges_compared_with_reference', 'same_result_as_unsegmented', 'truncation_reported_as_error',
        'overrun_followed_by_new_connection'))


if __name__ == '__main__':
    main()
