'''C18 - work per URL is bounded: redirect chains and retries always end.

End-to-end monitor: the real application crawls a page that links to URLs whose server never stops
redirecting or failing (cycles, endless chains over all redirect codes also across two hosts, missing or
unparsable Location, perpetual 500 / 401 / connection resets).  Requests are counted per URL family in
the server log and compared with the bounds implied by --max-redirect and --tries; the crawl must
terminate with those rows in a final failed state and a sentinel page fetched.
'''
import json
import os
import random
import shutil
import tempfile

from harness import common, par

FAMILIES = ['cycle', 'chain', 'alt', 'noloc', 'badloc', 'emptyloc', 'e500', 'e401', 'reset', 'selfredirect', 'auth401', 'e408', 'e429', 'e503']
DEAD_PORT = 9

# connection attempts to a port nobody listens on cannot be seen by a server: they are counted through the interpreter's
# audit events (socket.connect), one hook per worker process
_connect_watch = {}


def _audit(event, args):
    if event == 'socket.connect' and _connect_watch:
        try:
            addr = args[1]
            w = _connect_watch.get((addr[0], addr[1]))
        except Exception:
            return
        if w is not None:
            w['n'] += 1
            if w['n'] == w['breaker_at'] and w.get('breaker'):
                w['breaker']()


def watch_connects(addr, port, breaker_at, breaker):
    import sys
    if not _connect_watch.get('_installed'):
        sys.addaudithook(_audit)
        _connect_watch['_installed'] = True
    w = {'n': 0, 'breaker_at': breaker_at, 'breaker': breaker}
    _connect_watch[(addr, port)] = w
    return w


# a user script that asks for a retry whatever happens (before the response body, after the response, after an error): the
# number of tries still bounds the work
HOOK_PLUGIN = '''
from wpull.application.hook import Actions
from wpull.application.plugin import WpullPlugin, PluginFunctions, hook


CALLS = {}


def again(url, marker):
    # (circuit breaker: after 60 calls for one URL the script gives in, so that a crawler that ignores its limits comes to
    # an end and the overshoot can be reported from the request log)
    if marker not in url:
        return Actions.NORMAL
    CALLS[url] = CALLS.get(url, 0) + 1
    return Actions.RETRY if CALLS[url] <= 60 else Actions.NORMAL


class RetryEverything(WpullPlugin):
    @hook(PluginFunctions.handle_pre_response)
    def pre(self, item_session):
        return again(item_session.request.url, '/hookpre/')

    @hook(PluginFunctions.handle_response)
    def resp(self, item_session):
        return again(item_session.request.url, '/hookresp/')

    @hook(PluginFunctions.handle_error)
    def err(self, item_session, error):
        return again(item_session.request.url, '/hookerr/')
'''
HOOK_FAMILIES = ('hookpre', 'hookresp', 'hookerr')


def make_handler(case):
    codes = case['codes']

    hits = {}

    def handler(req):
        t = req['target']
        host = req['host'].lower().replace(':80', '')
        html = [('Content-Type', 'text/html; charset=utf-8')]
        fam0 = t.split('/')[1] if t.count('/') >= 2 else t
        hits[fam0] = hits.get(fam0, 0) + 1
        if hits[fam0] > 400:
            # circuit breaker: a crawler that never gives up is let out with a plain page so that the run ends and the
            # oracle can report the overshoot from the request log
            return {'status': 200, 'headers': html, 'body': b'<html><body>breaker</body></html>'}
        if t == '/robots.txt' or t.startswith('/robots-hop/'):
            mode = case.get('robots_mode')
            if mode == 'always-503':
                return {'status': 503, 'reason': 'Unavailable', 'headers': html, 'body': b'later'}
            k = int(t.rsplit('/', 1)[1]) if t.startswith('/robots-hop/') else 0
            if mode == 'redirect-cycle':
                return {'status': codes[k % len(codes)], 'reason': 'R', 'headers': [('Location', '/robots-hop/%d' % ((k + 1) % 3))], 'body': b''}
            if mode == 'redirect-chain':
                return {'status': codes[k % len(codes)], 'reason': 'R', 'headers': [('Location', '/robots-hop/%d' % (k + 1))], 'body': b''}
            if mode == 'noloc':
                return {'status': codes[0], 'reason': 'R', 'headers': [], 'body': b''}
            if mode == 'badloc':
                return {'status': codes[0], 'reason': 'R', 'headers': [('Location', 'http://[::bad/%%')], 'body': b''}
            if mode == 'garbage':
                return {'raw': b'\x00\x01 not http at all\r\n\r\n', 'close': True}
            return {'status': 404, 'reason': 'NF', 'headers': html, 'body': b'nf'}
        if t == '/':
            links = ''.join('<a href="/%s/0">%s</a>\n' % (f, f) for f in case['families'] if f != 'refused')
            if 'rd' in case['families']:
                links = '<a href="/rd/2">deep</a>\n' + links
            if 'refused' in case['families']:
                links += '<a href="http://c.test:%d/refused/0">refused</a>\n' % DEAD_PORT
            links += '<a href="/sentinel.html">s</a>'
            return {'status': 200, 'headers': html, 'body': ('<html><body>%s</body></html>' % links).encode()}
        if t == '/sentinel.html':
            return {'status': 200, 'headers': html, 'body': b'<html><body>ok</body></html>'}
        fam = t.split('/')[1] if t.count('/') >= 2 else ''
        try:
            n = int(t.split('/')[2].split('?')[0])
        except (IndexError, ValueError):
            n = 0
        code = codes[n % len(codes)]
        if fam == 'cycle':
            return {'status': code, 'reason': 'R', 'headers': [('Location', '/cycle/%d' % ((n + 1) % 3))], 'body': b''}
        if fam == 'chain':
            return {'status': code, 'reason': 'R', 'headers': [('Location', '/chain/%d' % (n + 1))], 'body': b''}
        if fam == 'alt':
            other = 'b.test' if host == 'a.test' else 'a.test'
            return {'status': code, 'reason': 'R', 'headers': [('Location', 'http://%s/alt/%d' % (other, n + 1))], 'body': b''}
        if fam == 'selfredirect':
            return {'status': code, 'reason': 'R', 'headers': [('Location', t)], 'body': b''}
        if fam == 'noloc':
            return {'status': code, 'reason': 'R', 'headers': [], 'body': b''}
        if fam == 'emptyloc':
            # a Location field that is present but empty / blank
            return {'status': code, 'reason': 'R', 'headers': [('Location', ['', ' ', '\t'][n % 3])], 'body': b''}
        if fam == 'badloc':
            return {'status': code, 'reason': 'R', 'headers': [('Location', 'http://[::bad/%%')], 'body': b''}
        if fam == 'e500':
            return {'status': 500, 'reason': 'ISE', 'headers': html, 'body': b'<html>err</html>'}
        if fam in ('e408', 'e429', 'e503'):
            # other answers that invite the client to ask again
            return {'status': int(fam[1:]), 'reason': 'Again', 'headers': html + [('Retry-After', '0'), ('Connection', 'close' if fam == 'e408' else 'keep-alive')],
                    'body': b'<html>again</html>'}
        if fam == 'rd':
            # a failing URL that is found a second time, nearer to the start, after a page that failed at first came good:
            #   / -> /rd/2 -> /rd/3 -> /rd/4 -> /rd/9 (always 500);   / -> /rd/0 (503 until its last try, then links /rd/9)
            if n in (2, 3, 4):
                return {'status': 200, 'headers': html, 'body': ('<html><body><a href="/rd/%d">deeper</a></body></html>' % (9 if n == 4 else n + 1)).encode()}
            if n == 0:
                if hits.get('/rd/0-failed', 0) < case['tries'] - 1:
                    hits['/rd/0-failed'] = hits.get('/rd/0-failed', 0) + 1
                    return {'status': 503, 'reason': 'Later', 'headers': html, 'body': b'<html>later</html>'}
                return {'status': 200, 'headers': html, 'body': b'<html><body><a href="/rd/9">dead again</a></body></html>'}
            return {'status': 500, 'reason': 'ISE', 'headers': html, 'body': b'<html>err</html>'}
        if fam == 'auth307':
            # a challenge and a request-repeating redirect in turn: each answer alone is harmless
            if hits[fam0] % 2 == 1:
                return {'status': 401, 'reason': 'Unauthorized', 'headers': html + [('WWW-Authenticate', 'Basic realm="x"')],
                        'body': b'<html>no</html>'}
            return {'status': codes[n % len(codes)] if codes[n % len(codes)] in (307, 308) else 307, 'reason': 'R',
                    'headers': [('Location', '/auth307/%d' % (n + 1))], 'body': b''}
        if fam in ('e401', 'auth401'):
            return {'status': 401, 'reason': 'Unauthorized', 'headers': html + [('WWW-Authenticate', 'Basic realm="x"')],
                    'body': b'<html>no</html>'}
        if fam in ('reset', 'hookerr'):
            return {'raw': b'', 'close': True}
        if fam in ('hookpre', 'hookresp'):
            return {'status': 200, 'headers': html, 'body': b'<html><body>fine, but the script wants it again</body></html>'}
        return {'status': 404, 'reason': 'NF', 'headers': html, 'body': b'nf'}
    return handler


def run_case(case, part):
    from harness import servers, crawl
    addrs, port = servers.allocate_addresses(3)
    srv = servers.Server(make_handler(case), addrs, port).start()
    tmp = tempfile.mkdtemp(prefix='vc18')
    rescue = []

    def open_dead_port():
        # circuit breaker for a crawler that retries a refused connection for ever: the port starts to answer
        rescue.append(servers.Server(lambda req: {'status': 404, 'reason': 'NF', 'body': b'breaker'}, [addrs[2]], DEAD_PORT).start())
    watch = watch_connects(addrs[2], DEAD_PORT, 60, open_dead_port) if 'refused' in case['families'] else None
    try:
        db = os.path.join(tmp, 'crawl.db')
        argv = ['http://a.test/', '-r', '--level', '6' if 'rd' in case['families'] else '1'] + ([] if case.get('robots_mode') else ['--no-robots']) + ['--database', db, '-P', tmp, '--delete-after',
                '--quiet', '--waitretry', '0'] + (['--tries', str(case['tries'])] if case['tries'] is not None else []) + ['--max-redirect', str(case['max_redirect']),
                '--concurrent', str(case['concurrent']), '--timeout', '10']
        if case['with_login']:
            argv += ['--http-user', 'u', '--http-password', 'p']
        if case.get('retry_connrefused'):
            argv += ['--retry-connrefused']
        if 'refused' in case['families']:
            argv += ['--span-hosts']
        if any(f in HOOK_FAMILIES for f in case['families']):
            with open(os.path.join(tmp, 'retry_plugin.py'), 'w') as f:
                f.write(HOOK_PLUGIN)
            argv += ['--plugin-script', os.path.join(tmp, 'retry_plugin.py')]
            part.count('crawls_with_a_script_that_always_asks_for_a_retry')
        res = crawl.run_app(argv, {'a.test': addrs[0], 'b.test': addrs[1], 'c.test': addrs[2]},
                            stall_watch=(lambda: len(srv.log.snapshot()) + (watch['n'] if watch else 0), 40))
        rows = crawl.read_table(db) if os.path.exists(db) else []
        log = srv.log.snapshot()
    finally:
        srv.stop()
        for r in rescue:
            r.stop()
        _connect_watch.pop((addrs[2], DEAD_PORT), None)
        shutil.rmtree(tmp, ignore_errors=True)
    part.evaluations += 1
    replay = case
    if res.get('stalled'):
        # no request and no connection attempt for 40 s: the witness is the pool state (waiters on hosts whose slots are all
        # checked out by clients that finished long ago)
        leaked = [k for k, st in (res.get('pool_state') or {}).items() if isinstance(st, dict) and st['busy'] >= st['max']]
        part.violation('crawl-stalled-for-ever/' + ('all-connection-slots-of-a-host-leaked' if leaked else 'other'),
                       {'pool_state': res.get('pool_state'), 'requests': len(log), 'tries': case['tries']}, replay)
        return
    if res['crashed']:
        part.violation('crawl-crashed', {'exception': res['exception'], 'log': res['log'][-600:]}, replay)
        return
    part.count('crawls_terminated')
    counts = {}
    for e in log:
        fam = e['target'].split('/')[1] if e['target'].count('/') >= 2 else e['target']
        counts[fam] = counts.get(fam, 0) + 1
    rowmap = {r['url']: r for r in rows}
    if case.get('robots_mode') == 'always-503':
        n = sum(1 for e in log if e['target'] == '/robots.txt')
        others = [e['target'] for e in log if e['target'] != '/robots.txt']
        part.count('robots_always_503_crawls')
        if n > (case['tries'] or 20) + 1:
            part.violation('robots-txt-retried-beyond-tries', {'requests': n, 'tries': case['tries']}, replay)
        elif others:
            part.violation('page-fetched-although-robots-txt-503', {'targets': others[:4]}, replay)
        else:
            part.count('families_within_bound')
        part.nontrivial_case('robots503/{}'.format(case['tries']))
        return
    if not any(e['target'] == '/sentinel.html' for e in log):
        part.violation('sentinel-not-fetched', {'counts': counts}, replay)
    # no --tries on the command line: the documented default (20, as Wget) is the configured number
    tries, maxr = (case['tries'] if case['tries'] is not None else 20), case['max_redirect']
    if case['tries'] is None:
        part.count('crawls_with_default_tries')
    if case.get('robots_mode'):
        # a robots.txt that cannot be had (redirects without end, no or unusable Location, not HTTP): the fetch that is part
        # of a visit follows at most max_redirect hops and is given up; the crawl goes on as for a missing robots.txt
        n = sum(1 for e in log if e['target'] == '/robots.txt' or e['target'].startswith('/robots-hop/'))
        part.count('crawls_with_unobtainable_robots_txt')
        rb = tries * (maxr + 1)
        if n > rb:
            part.violation('more-robots-txt-requests-than-limits-allow/' + case['robots_mode'],
                           {'requests': n, 'bound': rb, 'tries': tries, 'max_redirect': maxr}, replay)
        else:
            part.count('robots_txt_fetches_within_bound')
    if watch is not None:
        counts['refused'] = watch['n']
        part.count('connection_attempts_to_closed_port', watch['n'])
    for fam in case['families']:
        n = counts.get(fam, 0)
        part.count('requests_in_failing_families', n)
        per_visit = 1
        if fam in ('cycle', 'chain', 'alt', 'selfredirect'):
            per_visit = maxr + 1
        if fam in ('noloc', 'badloc', 'emptyloc'):
            per_visit = 1
        auth_extra = 1 if case['with_login'] and fam in ('e401', 'auth401') else 0
        bound = tries * (per_visit + auth_extra)
        if fam == 'auth307':
            # every hop of the visit may be challenged once
            bound = tries * (maxr + 1) * 2
        if fam == 'refused':
            bound = tries if case.get('retry_connrefused') else 1
        if fam in HOOK_FAMILIES:
            bound = tries
        if fam == 'rd':
            # /rd/2, /rd/3, /rd/4 once each, /rd/0 at most tries, /rd/9 at most tries
            bound = 3 + 2 * tries
        row = rowmap.get(('http://c.test:%d/refused/0' % DEAD_PORT) if fam == 'refused' else 'http://a.test/%s/%d' % (fam, 9 if fam == 'rd' else 0))
        if fam == 'rd':
            dead = sum(1 for e in log if e['target'] == '/rd/9')
            part.count('crawls_where_a_failing_url_is_found_again_nearer_the_start')
            if dead > tries:
                part.violation('more-requests-than-limits-allow/rediscovered-failing-url', {'requests': dead, 'tries': tries, 'row': row}, replay)
        detail = {'family': fam, 'requests': n, 'bound': bound, 'tries': tries, 'max_redirect': maxr, 'row': row}
        if n > bound:
            part.violation('more-requests-than-limits-allow/' + fam, detail, replay)
        elif n == 0:
            part.violation('family-never-requested/' + fam, detail, replay)
        else:
            part.count('families_within_bound')
        if fam in ('cycle', 'chain', 'alt', 'selfredirect') and maxr >= 1 and n < min(bound, maxr + 1):
            # the limit must not be hit early either (a visit really follows max_redirect hops)
            part.violation('redirects-given-up-too-early/' + fam, detail, replay)
        if row is None or row['status'] not in ('error', 'skipped'):
            part.violation('failing-url-not-in-failed-final-state/' + fam, detail, replay)
        elif row['try_count'] > tries + 1:
            # (the final skip() check-in also increments the counter; attempts are judged by the request log)
            part.violation('try-count-exceeds-tries/' + fam, detail, replay)
        part.nontrivial_case('{}/{}/{}/{}'.format(fam, tries, maxr, ','.join(map(str, case['codes']))))


def worker(job):
    import compat
    compat.install()
    import logging
    logging.disable(logging.CRITICAL)
    part = common.Part()
    cases = [job['replay']] if 'replay' in job else job['cases']
    for case in cases:
        run_case(case, part)
        if len(part.samples) < 2:
            part.sample(case)
    return part.dump()


def main():
    check = common.Check('C18')
    check.rule = ('crawls of a page linking to 9 failing URL families (redirect cycle, endless chain, chain alternating between two '
                  'hosts, redirect to itself, redirect without / with unparsable Location, perpetual 500, 401, connection reset) with '
                  'redirect codes from 301/302/303/307/308, --max-redirect in {0,1,2,5,20}, --tries in {1,2,3,5}, with and without '
                  'configured login, concurrency 1-3. distinct_nontrivial = distinct (family, tries, max-redirect, code pattern)')
    target = 'checks.c18_bounded:worker'
    if check.args.replay:
        with open(check.args.replay) as f:
            rp = json.load(f)
        res = par.run_jobs(target, [{'replay': rp['replay']}], 1, timeout=600)
    else:
        rng = random.Random(check.seed)
        cases = []
        # (tries above the per-host connection limit of 6: a visit that leaks its connection when it fails starves the host)
        combos = [(m, t) for m in (0, 1, 2, 5, 20) for t in (1, 2, 3, 5, 9)]
        n = int((800 if check.thorough else 192) * check.scale)
        for i in range(n):
            m, t = combos[i % len(combos)] if i < len(combos) or check.thorough else rng.choice(combos)
            fams = [f for f in FAMILIES if f != 'auth401']
            login = rng.random() < 0.4
            if login:
                fams.append('auth307')
            if i % 4 == 2:
                fams += list(HOOK_FAMILIES)
            if i % 4 == 1 and t >= 2:
                fams.append('rd')
            retry_refused = None
            if rng.random() < 0.5:
                fams.append('refused')
                retry_refused = rng.random() < 0.6
            cases.append({'max_redirect': m, 'tries': t, 'families': fams, 'retry_connrefused': retry_refused,
                          'codes': [rng.choice([301, 302, 303, 307, 308]) for _ in range(rng.choice([1, 2, 3]))],
                          'with_login': login, 'concurrent': rng.choice([1, 1, 3]),
                          'robots_mode': ['always-503', 'redirect-cycle', 'noloc', 'garbage', 'always-503', 'redirect-chain', 'badloc'][(i // 8) % 7]
                          if i % 8 == 7 else None})
            if i % 16 == 5:
                # the limit in force when the user passes none
                cases[-1].update({'tries': None, 'families': ['e500', 'reset', 'cycle'], 'max_redirect': min(m, 2), 'with_login': False,
                                  'retry_connrefused': None})
        nj = check.jobs * (2 if check.thorough else 1)
        jobs = [{'cases': cases[i::nj]} for i in range(nj) if cases[i::nj]]
        res = par.run_jobs(target, jobs, check.jobs, timeout=7200 if check.thorough else 900)
    for r in res:
        if '_error' in r:
            check.note_inconclusive('worker: ' + r['_error'] + ' ' + r.get('_stderr', '')[-400:])
        else:
            check.merge(r)
    check.finish(required_counters=() if check.args.replay else ('crawls_terminated', 'families_within_bound'))


if __name__ == '__main__':
    main()
