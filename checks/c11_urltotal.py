'''C11 - URL parsing and joining are total: any text gives a result or a ValueError.

Monitor: exception-type / termination oracle around the real entry points
(URLInfo.parse + every documented accessor, parse_url_or_log, urljoin, urljoin_safe, and the HTML
scraper joining the same strings as links onto document / <base> / per-element bases).
'''
import codecs
import json
import logging
import random
import signal
import sys
import time

from harness import common, par


class _Alarm(Exception):
    pass


def _on_alarm(signum, frame):
    raise _Alarm()


def text_encodings():
    import encodings.aliases
    names = sorted(set(encodings.aliases.aliases.values()))
    out = []
    for n in names:
        try:
            info = codecs.lookup(n)
        except LookupError:
            continue
        if getattr(info, '_is_text_encoding', True):
            try:
                'a'.encode(n)
            except Exception:
                continue
            out.append(n)
    return out


ALPHABET = list('abcxyzABC0123456789.:/?#@[]%\\ +&=-_~;,!$\'()*<>"`{}|^') + [
    '\t', '\n', '\r', '\x00', '\x1f', '\x7f', '\x80', '\x85', '\xa0', '\xad', 'é', 'ß', 'İ', 'ı', '。', '．', '｡',
    '０', '９', 'ｘ', '日', '本', '​', '‍', '‮', ' ', '﻿', '�', '￿',
    '\U0001f600', '\U000e0001', '\U0010ffff', '\ud800', '\udfff', '\udc80', '٣', '𝟙', 'Ⅷ', '%zz', '%',
    '%2', '%00', '%0d%0a', '%ff', '%C3', '%e9', '::', '//', '///', '..', './', '../', '[::1]', '[', ']',
    '[]', '[:', ':]', ':0', ':65535', ':65536', ':-1', ':99999999999999999999', ':٣', ':8_0', ': 80',
    ':+80', ':0x50', '@@', '@:', ':@', 'xn--', 'xn--a', 'xn--\x80', 'http:', 'https:', 'ftp:', 'mailto:',
    'javascript:', 'data:', 'file:', 'HTTP:', 'localhost', 'localhost:', '0x', '0x7f', '08', '4294967296',
    '-1', '1e3', '1_0',
    # path parameters and other scheme-specific syntax (RFC 1738 ;type= of FTP URLs, gopher item types, ws queries)
    '?a&a=', '?download&download=1', '?debug=true&debug', '?&=', '?x&x&x=1&=&', '&a&a=1', '?=&', '?a=1&a', ';a&a=2',
    ';type=a', ';type=i', ';type=d', ';type=', ';type=x', ';type=binary', ';type=%61', ';type=a/b', ';TYPE=A', ';type', ';', ';;', ';a=b;c',
    '/f;type=', '/dir/;type=d', '%3Btype=a', ';type=a?x', ';type=a#y', '/0', '/1/x', '/9', '/h', '\t70', '%09', '/%2F', '/%2f%2E%2e']
PREFIXES = ['', '', 'http://', 'http://', 'https://', 'ftp://', 'HTTP://', 'http:', 'http:/', 'http:///',
            '//', '/', 'ws://', 'wss://', 'gopher://', 'mailto:', 'javascript:', 'x:', ':', '?', '#',
            'http://[', 'http://user:pass@', 'http://@', 'http://:@', 'ftp://a:b@[', 'localhost:', 'a.b:']


def gen_text(rng):
    kind = rng.random()
    if kind < 0.6:
        n = rng.choice([0, 1, 2, 3, 5, 8, 13, 21, 40])
        s = rng.choice(PREFIXES) + ''.join(rng.choice(ALPHABET) for _ in range(n))
    elif kind < 0.7:
        # over-long labels / huge inputs
        lab = rng.choice(['a', 'é', '0', 'xn--', '-', '.']) * rng.choice([63, 64, 65, 253, 254, 255, 1000, 5000])
        s = rng.choice(PREFIXES) + lab + rng.choice(['', '.com', ':80', '/x', '.' + lab])
    elif kind < 0.8:
        # random code points
        s = rng.choice(PREFIXES) + ''.join(chr(rng.choice([rng.randrange(0x20, 0x7f), rng.randrange(0, 0x300),
                                                               rng.randrange(0, 0x110000)]))
                                           for _ in range(rng.randrange(1, 16)))
    elif kind < 0.9:
        # ports
        s = rng.choice(['http://h', 'http://[::1]', 'ftp://u@h', 'h', 'a.b']) + ':' + rng.choice(
            ['', '0', '80', '65535', '65536', '-0', '-1', '+1', ' 1', '1 ', '1_1', '٣', '９', '1e1', '0x1',
             '9' * 30, '9' * 5000, 'a', '%38%30', '８０', '²', '¹²', '1٠'])
        s += rng.choice(['', '/', '/p', '?q', '#f'])
    else:
        # ipv6 / bracket soup
        s = rng.choice(['http://', 'ftp://', '', 'https://u:p@']) + ''.join(
            rng.choice(['[', ']', ':', '::', '1', 'f', 'F', 'g', '.', '%', '%25', 'eth0', '/', '@', '0', 'ffff',
                        '1.2.3.4', ' ', '٣']) for _ in range(rng.randrange(1, 14)))
    return s


ACCESSORS = ['to_dict', 'query_map', 'url', 'hostname_with_port', 'split_path', 'is_port_default',
             'is_ipv6', 'repr', 'hash', 'eq', 'attrs']
ATTRS = ('raw', 'scheme', 'authority', 'path', 'query', 'fragment', 'userinfo', 'username', 'password',
         'host', 'hostname', 'port', 'resource', 'encoding')


def read_accessor(info, name):
    if name == 'to_dict':
        info.to_dict()
    elif name == 'query_map':
        info.query_map
    elif name == 'url':
        info.url
    elif name == 'hostname_with_port':
        info.hostname_with_port
    elif name == 'split_path':
        info.split_path()
    elif name == 'is_port_default':
        info.is_port_default()
    elif name == 'is_ipv6':
        info.is_ipv6()
    elif name == 'repr':
        repr(info)
    elif name == 'hash':
        hash(info)
    elif name == 'eq':
        info == info
        info != info
    elif name == 'attrs':
        for a in ATTRS:
            getattr(info, a)


def innermost_wpull(tb):
    where = None
    while tb is not None:
        fn = tb.tb_frame.f_code.co_filename
        if '/wpull/' in fn:
            where = '{}:{}'.format(fn.split('/wpull/', 1)[1], tb.tb_frame.f_code.co_name)
        tb = tb.tb_next
    return where or 'outside-wpull'


def exercise(mods, text, encoding, base, part, replay):
    URLInfo, wurl, sutil = mods
    info = None
    signal.alarm(10)
    try:
        try:
            info = URLInfo.parse(text, encoding=encoding)
            part.count('parse_returned')
            if info.scheme in wurl.RELATIVE_SCHEME_DEFAULT_PORTS:
                part.count('parse_returned_network')
                part.nontrivial_case('ok:' + text)
            else:
                part.count('parse_returned_non_network')
        except ValueError:
            part.count('parse_value_error')
            part.nontrivial_case('ve:' + text)
        except _Alarm:
            raise
        except BaseException as e:
            part.violation('parse/{}/{}'.format(type(e).__name__, innermost_wpull(e.__traceback__)),
                           {'text': text, 'encoding': encoding, 'error': repr(e)[:300]}, replay)
        if info is not None:
            for acc in ACCESSORS:
                try:
                    read_accessor(info, acc)
                    part.count('accessor_reads')
                except _Alarm:
                    raise
                except BaseException as e:
                    net = 'network' if info.scheme in wurl.RELATIVE_SCHEME_DEFAULT_PORTS else 'non-network'
                    part.violation('accessor/{}/{}/{}'.format(acc, type(e).__name__, net),
                                   {'text': text, 'encoding': encoding, 'error': repr(e)[:300],
                                    'where': innermost_wpull(e.__traceback__)}, replay)
        try:
            wurl.parse_url_or_log(text, encoding=encoding)
            part.count('parse_url_or_log_calls')
        except _Alarm:
            raise
        except BaseException as e:
            part.violation('parse_url_or_log/{}/{}'.format(type(e).__name__, innermost_wpull(e.__traceback__)),
                           {'text': text, 'encoding': encoding, 'error': repr(e)[:300]}, replay)
        for b, l in ((base, text), (text, base)):
            try:
                wurl.urljoin(b, l, allow_fragments=bool(len(text) & 1))
                part.count('urljoin_returned')
            except ValueError:
                part.count('urljoin_value_error')
            except _Alarm:
                raise
            except BaseException as e:
                part.violation('urljoin/{}/{}'.format(type(e).__name__, innermost_wpull(e.__traceback__)),
                               {'base': b, 'link': l, 'error': repr(e)[:300]}, replay)
            try:
                sutil.urljoin_safe(b, l, allow_fragments=bool(len(text) & 1))
                part.count('urljoin_safe_calls')
            except _Alarm:
                raise
            except BaseException as e:
                part.violation('urljoin_safe/{}/{}'.format(type(e).__name__, innermost_wpull(e.__traceback__)),
                               {'base': b, 'link': l, 'error': repr(e)[:300]}, replay)
    except _Alarm:
        part.count('alarm_fired')
        part.inconclusive.append({'hang_suspect': replay})
    finally:
        signal.alarm(0)


_html = {}


def html_attr(text):
    return text.replace('&', '&amp;').replace('"', '&quot;').replace('<', '&lt;').replace('>', '&gt;')


def exercise_scraper(text, base, variant, part, replay):
    '''The same strings as scraped links: the real HTML scraper joins every link of a document onto the document
    URL, a <base href> or a per-element base (codebase).  Whatever the strings, scraping returns.'''
    from wpull.protocol.http.request import Request, Response
    from wpull.body import Body
    import io
    if 'scraper' not in _html:
        from checks import c09_hostile
        from wpull.scraper.html import HTMLScraper
        demux = c09_hostile.get_scraper()
        _html['scraper'] = [sc for sc in demux._document_scrapers if isinstance(sc, HTMLScraper)][0]
    scraper = _html['scraper']
    links = [text, '//cdn.test/x.class', 'rel/x', '/abs', 'http://h.test/x', '?q', '#f', '']
    a, b, c = links[variant % len(links)], links[(variant // 8) % len(links)], links[(variant // 64) % len(links)]
    doc = ('<html><head>{base}</head><body><applet code="{a}" codebase="{t}" archive="{b},{c}"></applet>'
           '<object data="{a}" codebase="{t}" classid="{b}"></object><embed src="{a}" codebase="{t}">'
           '<applet code="{t}" codebase="{b}"></applet><a href="{t}">x</a><img src="{t}" srcset="{t} 1x, {a} 2x">'
           '<iframe src="{t}"></iframe><form action="{t}"></form><link rel="stylesheet" href="{t}">'
           '<meta http-equiv="refresh" content="0; url={t}"><body background="{t}"></body></html>').format(
        base='<base href="{}">'.format(html_attr(base if variant & 1 else text)) if variant & 6 else '',
        t=html_attr(text), a=html_attr(a), b=html_attr(b), c=html_attr(c))
    try:
        body = doc.encode('utf-8')
    except UnicodeEncodeError:
        body = doc.encode('utf-8', 'replace')
    request = Request('http://h.test/dir/page.html')
    response = Response(200, 'OK')
    response.request = request
    response.fields['Content-Type'] = 'text/html; charset=utf-8'
    response.body = Body(io.BytesIO(body))
    signal.alarm(20)
    try:
        result = scraper.scrape(request, response)
        part.count('documents_scraped')
        part.count('scraped_links_joined', len(result.link_contexts) if result else 0)
    except _Alarm:
        part.count('alarm_fired')
        part.inconclusive.append({'hang_suspect': replay})
    except BaseException as e:
        part.violation('html-scraper-join/{}/{}'.format(type(e).__name__, innermost_wpull(e.__traceback__)),
                       {'text': text, 'base': base, 'variant': variant, 'error': repr(e)[:300]}, replay)
    finally:
        signal.alarm(0)


class _FormatHandler(logging.Handler):
    def __init__(self, part):
        super().__init__()
        self.part = part

    def emit(self, record):
        try:
            record.getMessage()
            self.part.count('log_records_formatted')
        except Exception:
            self.part.count('log_format_errors')


BASES = ['http://example.com/a/b', 'http://example.com', 'https://h:8080/x/?q', 'ftp://u:p@h/d/', '//h/p',
         'mailto:a@b', '', 'http://[::1]/', 'http://[', 'x', 'http://h/a/../b/./c', 'HTTP://H']


def worker(job):
    import compat
    compat.install()
    import wpull.url as wurl
    import wpull.scraper.util as sutil
    from wpull.url import URLInfo
    part = common.Part()
    root = logging.getLogger()
    root.handlers[:] = [_FormatHandler(part)]
    root.setLevel(logging.WARNING)
    debug_logging = bool(job.get('debug_logging') or (job.get('replay') or {}).get('debug_logging'))
    if debug_logging:
        # the crawler run with --debug: every log call is formatted by a stock stream handler (which lets a
        # RecursionError through to the caller, as logging does)
        import io
        sink = io.StringIO()
        root.handlers[:] = [logging.StreamHandler(sink)]
        root.setLevel(logging.DEBUG)
        part.count('jobs_with_debug_logging')
    signal.signal(signal.SIGALRM, _on_alarm)
    mods = (URLInfo, wurl, sutil)
    if 'replay' in job:
        rp = job['replay']
        if 'scrape_variant' in rp:
            exercise_scraper(rp['text'], rp['base'], rp['scrape_variant'], part, rp)
        else:
            exercise(mods, rp['text'], rp['encoding'], rp['base'], part, rp)
        part.evaluations += 1
        return part.dump()
    rng = random.Random(job['seed'])
    encs = text_encodings()
    part.count('encodings_available', 0)
    seen_enc = set()
    for i in range(job['n']):
        text = gen_text(rng)
        encoding = 'utf-8' if rng.random() < 0.5 else rng.choice(encs)
        seen_enc.add(encoding)
        base = rng.choice(BASES) if rng.random() < 0.8 else gen_text(rng)
        replay = {'text': text, 'encoding': encoding, 'base': base, 'debug_logging': debug_logging}
        part.evaluations += 1
        exercise(mods, text, encoding, base, part, replay)
        if i % 12 == 0:
            variant = rng.randrange(1 << 12)
            exercise_scraper(text, base, variant, part, dict(replay, scrape_variant=variant))
        if i % 1999 == 0:
            part.sample(replay)
    out = part.dump()
    out['encodings'] = sorted(seen_enc)
    return out


def main():
    check = common.Check('C11')
    check.rule = ('Unicode strings from a hostile alphabet (lone surrogates, bracket/colon soup, huge and signed '
                  'ports, over-long labels, controls) x every text encoding of the interpreter; '
                  'distinct_nontrivial = distinct inputs that the parser either accepted or rejected with '
                  'ValueError (i.e. reached a verdict)')
    check.assumptions = ['a call that runs into the 10 s alarm is re-run alone in a fresh process with a 60 s '
                         'limit; only a second overrun is reported as non-termination']
    target = 'checks.c11_urltotal:worker'
    if check.args.replay:
        with open(check.args.replay) as f:
            rp = json.load(f)
        res = par.run_jobs(target, [{'seed': 0, 'replay': rp['replay']}], 1, timeout=120)
    else:
        total = int((6000000 if check.thorough else 120000) * check.scale)
        nj = check.jobs * (8 if check.thorough else 1)
        jobs = [{'seed': check.seed * 1000003 + i, 'n': total // nj, 'debug_logging': i % 4 == 3} for i in range(nj)]
        res = par.run_jobs(target, jobs, check.jobs, timeout=7200 if check.thorough else 900)
    encs = set()
    suspects = []
    for r in res:
        if '_error' in r:
            check.note_inconclusive('worker: ' + r['_error'] + ' ' + r.get('_stderr', '')[-300:])
            continue
        encs.update(r.get('encodings', []))
        for inc in r.pop('inconclusive', []):
            if isinstance(inc, dict) and 'hang_suspect' in inc:
                suspects.append(inc['hang_suspect'])
            else:
                check.note_inconclusive(inc)
        r['inconclusive'] = []
        check.merge(r)
    for rp in suspects[:20]:
        rr = par.run_jobs(target, [{'seed': 0, 'replay': rp}], 1, timeout=60)[0]
        if rr.get('_error') == 'timeout' or rr.get('counters', {}).get('alarm_fired'):
            check.violation('non-termination', rp, rp)
        else:
            check.count('hang_suspects_cleared')
    check.extra['distinct_encodings'] = len(encs)
    check.finish(required_counters=() if check.args.replay else (
        'parse_returned_network', 'parse_value_error', 'accessor_reads', 'parse_url_or_log_calls',
        'urljoin_safe_calls', 'documents_scraped', 'scraped_links_joined'))


if __name__ == '__main__':
    main()
