'''C13 - the pipeline runs every item through every task once, and always finishes.

The real wpull.pipeline.pipeline.Pipeline runs on the controlled scheduler (harness.sched) with an
instrumented ItemSource and ItemTasks whose completions, the stop request, concurrency changes and
injected exceptions are external events chosen by the scheduler.  An oracle over the recorded
(task, item, start/end) log decides the clauses; "process() has not returned although the loop is
quiescent" is the deterministic hang witness.
'''
import asyncio
import json
import random

from harness import common, par, sched


class Boom(Exception):
    pass


class SpinDetected(BaseException):
    pass


class Item(object):
    def __init__(self, n):
        self.n = n

    def __repr__(self):
        return 'item%d' % self.n


def run_one(cfg, chooser, max_steps=6000):
    '''Execute one schedule; returns observation dict.'''
    from wpull.pipeline.pipeline import Pipeline, ItemSource, ItemTask, ItemQueue, POISON_PILL
    log = []
    state = {'stop_requested_at': None, 'stop_returned_at': None, 'conc': cfg['conc'], 'supplied': [],
             'get_item_calls': 0, 'conc_at_stop': None, 'available': 1}
    loop = sched.new_loop(chooser, max_steps=max_steps)

    class Source(ItemSource):
        def __init__(self):
            self.next = 0
            self.limit = cfg['items']

        @asyncio.coroutine
        def get_item(self):
            state['get_item_calls'] += 1
            log.append(('get_item_begin', len(log), loop.steps))
            if cfg.get('source_delay'):
                yield from loop.external_future('source-ready-%d' % state['get_item_calls'])
            if cfg.get('source_raises_at') is not None and self.next == cfg['source_raises_at']:
                self.next += 1
                log.append(('source_raise', self.next - 1))
                kind = cfg.get('source_raise_kind', 'boom')
                if kind == 'stopiteration':
                    # an exhausted iterator inside the source (next() on an empty result set): since PEP 479 this
                    # surfaces as RuntimeError('generator raised StopIteration') whose cause is the StopIteration
                    next(iter(()))
                if kind == 'chained':
                    try:
                        next(iter(()))
                    except StopIteration as stop:
                        raise Boom('source') from stop
                raise Boom('source')
            if cfg.get('dynamic') and self.next >= state['available'] and self.next < self.limit:
                # like the URL table: further items only exist once earlier ones have been processed
                log.append(('get_item_none', None, loop.steps))
                return None
            if self.next < self.limit:
                item = Item(self.next)
                self.next += 1
                state['supplied'].append(item.n)
                log.append(('supplied', item.n, loop.steps))
                return item
            log.append(('get_item_none', None, loop.steps))
            return None

    class Task(ItemTask):
        def __init__(self, t):
            self.t = t

        @asyncio.coroutine
        def process(self, item):
            log.append(('start', self.t, item.n if isinstance(item, Item) else repr(item), loop.steps))
            yield from loop.external_future('finish-t%d-i%s' % (self.t, getattr(item, 'n', '?')))
            if cfg.get('task_raises') == [self.t, item.n]:
                log.append(('task_raise', self.t, item.n))
                raise Boom('task')
            log.append(('end', self.t, item.n, loop.steps))
            if self.t == cfg['tasks'] - 1:
                state['available'] += cfg.get('dynamic') or 0

    class ObservedQueue(ItemQueue):
        '''The queue object is a public constructor parameter of Pipeline: observe which items workers take.'''
        @asyncio.coroutine
        def get(self):
            item = yield from super().get()
            if item is not POISON_PILL:
                log.append(('dequeued', getattr(item, 'n', repr(item)), loop.steps))
            return item

    source = Source()
    tasks = [Task(t) for t in range(cfg['tasks'])]
    pipeline = Pipeline(source, tasks, item_queue=ObservedQueue())
    pipeline.concurrency = cfg['conc']
    # hooked state: the moment process() leaves its worker loop and begins to wait for the items in flight
    _orig_shutdown = pipeline._shutdown_processing

    def _observed_shutdown(*a, **kw):
        log.append(('shutdown_begin', None, loop.steps))
        return _orig_shutdown(*a, **kw)
    pipeline._shutdown_processing = _observed_shutdown

    def do_stop():
        if pipeline._state.value != 'running':
            # a stop request only means something while process() is running
            log.append(('stop_ignored_state_' + pipeline._state.value, None, loop.steps))
            state['stop_retries'] = state.get('stop_retries', 0) + 1
            if pipeline._state.value == 'stopped' and not main.done() and state['stop_retries'] < 4:
                loop.add_external('stop', do_stop)
            return
        state['stop_requested_at'] = len(log)
        state['conc_at_stop'] = pipeline.concurrency
        state['workers_at_stop'] = len(pipeline._worker_tasks)
        log.append(('stop_called', None, loop.steps))
        pipeline.stop()
        state['stop_returned_at'] = len(log)

    changes = list(cfg.get('changes') or [])

    def make_change(i):
        def change():
            log.append(('concurrency', changes[i], loop.steps))
            pipeline.concurrency = changes[i]
            state['conc'] = changes[i]
            if i + 1 < len(changes):
                loop.add_external('conc=%d#%d' % (changes[i + 1], i + 1), make_change(i + 1))
        return change
    async def main_wrapper():
        # external control starts with process() itself (a stop request or a concurrency change on a pipeline
        # that is not running is outside the property); process() runs up to its first suspension within the
        # same scheduler step, so the pipeline is in state 'running' when the first external can fire
        if cfg.get('stop'):
            loop.add_external('stop', do_stop)
        if changes:
            loop.add_external('conc=%d#0' % changes[0], make_change(0))
        try:
            result = await pipeline.process()
        finally:
            log.append(('process_left', None, loop.steps))
        for _ in range(cfg.get('more_runs') or 0):
            # the same Pipeline object is used again after it has finished: the source has new items by then
            log.append(('process_again', None, loop.steps))
            source.limit += cfg['items']
            result = await pipeline.process()
        return result

    main = loop.create_task(main_wrapper())
    obs = {'cfg': cfg}
    import signal

    def on_alarm(signum, frame):
        raise SpinDetected()
    signal.signal(signal.SIGALRM, on_alarm)
    signal.alarm(20)
    obs['spin'] = False
    try:
        quiescent = loop.run_to_quiescence()
    except SpinDetected:
        obs['spin'] = True
    finally:
        signal.alarm(0)
        obs.update(quiescent=loop.quiescent, overrun=loop.overrun, steps=loop.steps, trace=list(loop.trace),
                   main_done=main.done(), log=log, state=state)
        if main.done():
            if main.cancelled():
                obs['main_exception'] = 'CancelledError'
            else:
                exc = main.exception()
                obs['main_exception'] = None if exc is None else type(exc).__name__ + ':' + str(exc)
        sched.close_loop(loop)
    return obs


def judge(obs, part, replay):
    cfg, log, state = obs['cfg'], obs['log'], obs['state']
    n_items, n_tasks = cfg['items'] * (1 + (cfg.get('more_runs') or 0)), cfg['tasks']
    starts = {}
    ends = {}
    in_flight = 0
    max_in_flight = 0
    cls = config_class(cfg)
    for idx, ev in enumerate(log):
        if ev[0] == 'start':
            t, i = ev[1], ev[2]
            if not isinstance(i, int) or i not in state['supplied']:
                part.violation('processed-item-not-from-source', {'event': ev, 'cfg': cfg}, replay)
                continue
            if (t, i) in starts:
                part.violation('task-run-twice-for-item/' + cls, {'task': t, 'item': i, 'cfg': cfg}, replay)
            starts[(t, i)] = idx
            if t > 0 and (t - 1, i) not in ends:
                part.violation('task-order-violated/' + cls, {'task': t, 'item': i, 'cfg': cfg}, replay)
            if t == 0:
                in_flight += 1
                max_in_flight = max(max_in_flight, in_flight)
        elif ev[0] == 'end':
            t, i = ev[1], ev[2]
            ends[(t, i)] = idx
            if t == n_tasks - 1:
                in_flight -= 1
        elif ev[0] == 'task_raise':
            in_flight -= 1
    obs['max_in_flight'] = max_in_flight
    if obs.get('spin'):
        # one callback ran for 20 s of CPU without yielding to the loop: a busy loop inside process()
        part.violation('busy-loop-without-yield/' + cls, {'cfg': cfg, 'trace': obs['trace'][-30:],
                                                         'log_tail': log[-10:]}, replay)
        return
    if obs.get('main_exception') and 'SpinDetected' in obs['main_exception']:
        part.violation('busy-loop-without-yield/' + cls, {'cfg': cfg, 'trace': obs['trace'][-30:],
                                                         'log_tail': log[-10:]}, replay)
        return
    if obs['overrun']:
        part.inconclusive.append('step cap reached: ' + json.dumps(cfg))
        return
    if not obs['quiescent']:
        part.inconclusive.append('loop stopped without quiescence')
        return
    injected = cfg.get('task_raises') is not None or cfg.get('source_raises_at') is not None
    raised = any(ev[0] in ('task_raise', 'source_raise') for ev in log)
    stop = state['stop_requested_at'] is not None
    if not obs['main_done'] and not raised and not stop and state['conc'] == 0 and (cfg.get('changes') or [1])[-1] == 0:
        # paused and never resumed, nothing failed: process() legitimately waits (only generated together with an injected
        # failure that did not happen in this schedule because its item was never started)
        part.count('paused_forever_without_failure')
        return
    if not obs['main_done']:
        # quiescent loop, process() not returned: deterministic hang witness
        if raised:
            key = 'hang-after-exception/' + ('task' if any(e[0] == 'task_raise' for e in log) else 'source')
        elif stop:
            key = 'hang-after-stop/' + stop_situation(obs)
        else:
            key = 'hang-without-stop/' + cls
        part.violation(key, {'cfg': cfg, 'trace': obs['trace'][-40:], 'log_tail': log[-12:],
                             'steps': obs['steps']}, replay)
        return
    part.count('process_returned')
    if raised:
        expected = 'RuntimeError' if cfg.get('source_raise_kind') == 'stopiteration' and any(e[0] == 'source_raise' for e in log) else 'Boom'
        if not obs['main_exception'] or expected not in obs['main_exception']:
            part.violation('exception-not-surfaced/' + ('task' if any(e[0] == 'task_raise' for e in log) else 'source'),
                           {'cfg': cfg, 'main_exception': obs['main_exception']}, replay)
        else:
            part.count('exception_surfaced')
            # "after a stop request it returns as soon as the items in flight finish": once process() has begun to wait for
            # the items in flight (stop request taken, worker loop left), a failure of one of them does not entitle it to
            # return while another one is still being processed
            names = [e[0] for e in log]
            if 'shutdown_begin' in names and 'task_raise' in names and 'process_left' in names and \
                    names.index('shutdown_begin') < names.index('task_raise'):
                left = names.index('process_left')
                started0 = set(e[2] for e in log[:left] if e[0] == 'start' and e[1] == 0)
                finished = set(e[2] for e in log[:left] if (e[0] == 'end' and e[1] == n_tasks - 1) or e[0] == 'task_raise')
                orphans = sorted(started0 - finished)
                if orphans:
                    part.violation('process-returned-with-item-in-flight/failure-while-waiting-for-stop',
                                   {'cfg': cfg, 'items_in_flight': orphans, 'log_tail': log[-14:]}, replay)
                else:
                    part.count('failure_during_stop_wait_all_in_flight_finished')
        return
    if obs['main_exception']:
        part.violation('unexpected-exception-from-process/' + cls,
                       {'cfg': cfg, 'exception': obs['main_exception'], 'trace': obs['trace'][-30:]}, replay)
        return
    if not stop:
        # exactly once for every item
        missing = [(t, i) for i in range(n_items) for t in range(n_tasks) if (t, i) not in ends]
        if missing:
            part.violation('item-not-fully-processed/' + cls, {'cfg': cfg, 'missing': missing[:6],
                                                               'trace': obs['trace'][-30:]}, replay)
        else:
            part.count('all_items_exactly_once')
    else:
        part.count('stop_runs')
        sidx = state['stop_returned_at']
        late_get = [ev for ev in log[sidx:] if ev[0] == 'get_item_begin']
        if late_get:
            part.violation('get_item-called-after-stop/' + stop_situation(obs),
                           {'cfg': cfg, 'count': len(late_get)}, replay)
        # further work = an item that a worker takes from the queue after the stop request returned
        taken_late = [ev[1] for ev in log[sidx:] if ev[0] == 'dequeued']
        if taken_late:
            part.violation('item-taken-from-queue-after-stop', {'cfg': cfg, 'items': taken_late, 'trace': obs['trace'][-30:]}, replay)
        else:
            part.count('no_item_taken_after_stop')
        supplied_before = set(ev[1] for ev in log[:sidx] if ev[0] == 'supplied')
        late_starters = [i for (t, i), idx in starts.items() if t == 0 and idx >= sidx]
        for i in late_starters:
            if i not in supplied_before:
                part.violation('item-taken-after-stop', {'cfg': cfg, 'item': i}, replay)
        if len(late_starters) > max(state['conc_at_stop'] or 0, state.get('workers_at_stop') or 0):
            part.violation('more-late-starters-than-workers', {'cfg': cfg, 'late': late_starters}, replay)
        # an item that was started must run through all tasks (in-flight items finish)
        for (t, i) in starts:
            if (t, i) not in ends:
                part.violation('in-flight-item-not-finished-after-stop', {'cfg': cfg, 'task': t, 'item': i}, replay)
                break


def stop_situation(obs):
    '''Mechanism classifier for a hang after stop: what was the pipeline doing when stop() was called.'''
    log, state = obs['log'], obs['state']
    sidx = state['stop_requested_at']
    supplied = [ev[1] for ev in log[:sidx] if ev[0] == 'supplied']
    started = [ev[2] for ev in log[:sidx] if ev[0] == 'start' and ev[1] == 0]
    queued_ahead = [i for i in supplied if i not in started]
    if not any(ev[0] == 'get_item_begin' for ev in log[:sidx]):
        return 'before-producer-first-step'
    if state['conc_at_stop'] == 0:
        return 'while-paused'
    pending_get = sum(1 for ev in log[:sidx] if ev[0] == 'get_item_begin') - \
        sum(1 for ev in log[:sidx] if ev[0] in ('supplied', 'get_item_none', 'source_raise'))
    if queued_ahead or pending_get > 0:
        # the producer holds (or is about to obtain) an item that no worker will ever take
        return 'producer-holds-unconsumed-item'
    return 'other'


def config_class(cfg):
    changes = cfg.get('changes') or []
    return 'conc{}{}'.format(cfg['conc'], ('/changes-with-pause' if 0 in changes else '/changes') if changes else '')


def gen_cfg(rng, small):
    items = rng.choice([0, 1, 2, 3] if small else [0, 1, 2, 3, 4, 5, 7])
    tasks = rng.choice([1, 2] if small else [1, 2, 3])
    conc = rng.choice([1, 2] if small else [1, 2, 3, 4])
    cfg = {'items': items, 'tasks': tasks, 'conc': conc, 'source_delay': rng.random() < 0.4}
    if rng.random() < 0.3:
        cfg['dynamic'] = rng.choice([1, 2, 3])
    r = rng.random()
    if r < 0.35:
        cfg['stop'] = True
        if items and rng.random() < 0.25:
            # a task of an item in flight fails around the stop request: the failure still has to surface
            cfg['task_raises'] = [rng.randrange(tasks), rng.randrange(items)]
    elif r < 0.5 and items:
        cfg['task_raises'] = [rng.randrange(tasks), rng.randrange(items)]
    elif r < 0.6:
        cfg['source_raises_at'] = rng.randrange(items + 1)
        cfg['source_raise_kind'] = rng.choice(['boom', 'boom', 'stopiteration', 'chained'])
    if not cfg.get('stop') and not cfg.get('task_raises') and cfg.get('source_raises_at') is None and not cfg.get('dynamic') \
            and rng.random() < 0.25:
        cfg['more_runs'] = rng.choice([1, 1, 2])
    if rng.random() < 0.4:
        n = rng.choice([1, 2, 3])
        ch = [rng.choice([0, 1, 2, 3, 4]) for _ in range(n)]
        if ch[-1] == 0 and not (cfg.get('task_raises') or cfg.get('source_raises_at') is not None) or rng.random() < 0.5:
            # a pause is normally lifted again; with an injected failure it may also stay (the failure of an item in
            # flight must surface although the pipeline is paused)
            if ch[-1] == 0:
                ch.append(rng.choice([1, 2]))
        cfg['changes'] = ch
        if 0 in ch:
            # (starting process() while the pipeline is paused is outside the property, see DESIGN 9 observations)
            cfg.pop('more_runs', None)
    return cfg


DIRECTED = [
    {'items': 3, 'tasks': 2, 'conc': 1},
    {'items': 3, 'tasks': 2, 'conc': 2},
    {'items': 2, 'tasks': 1, 'conc': 1, 'stop': True},
    {'items': 3, 'tasks': 2, 'conc': 2, 'stop': True},
    {'items': 3, 'tasks': 1, 'conc': 1, 'stop': True, 'source_delay': True},
    {'items': 2, 'tasks': 2, 'conc': 1, 'changes': [0, 1]},
    {'items': 3, 'tasks': 1, 'conc': 2, 'changes': [1]},
    {'items': 3, 'tasks': 1, 'conc': 1, 'changes': [3]},
    {'items': 2, 'tasks': 1, 'conc': 1, 'changes': [0, 2], 'stop': True},
    {'items': 2, 'tasks': 2, 'conc': 2, 'task_raises': [1, 0]},
    {'items': 2, 'tasks': 1, 'conc': 1, 'source_raises_at': 1},
    {'items': 0, 'tasks': 1, 'conc': 1},
    {'items': 3, 'tasks': 1, 'conc': 1, 'dynamic': 2, 'changes': [0, 1]},
    {'items': 3, 'tasks': 1, 'conc': 1, 'dynamic': 1, 'changes': [2, 3]},
    {'items': 4, 'tasks': 1, 'conc': 2, 'dynamic': 2, 'changes': [3, 2], 'stop': True},
    {'items': 0, 'tasks': 1, 'conc': 2, 'stop': True},
    {'items': 2, 'tasks': 1, 'conc': 2, 'task_raises': [0, 1], 'changes': [0]},
    {'items': 2, 'tasks': 1, 'conc': 1, 'more_runs': 1},
    {'items': 3, 'tasks': 2, 'conc': 2, 'more_runs': 2, 'source_delay': True},
    {'items': 3, 'tasks': 2, 'conc': 3, 'task_raises': [1, 0], 'changes': [0]},
    {'items': 2, 'tasks': 1, 'conc': 2, 'task_raises': [0, 0], 'changes': [1, 0]},
    {'items': 3, 'tasks': 2, 'conc': 2, 'stop': True, 'task_raises': [1, 0]},
    {'items': 2, 'tasks': 1, 'conc': 2, 'source_raises_at': 1, 'source_raise_kind': 'stopiteration'},
    # stop with an idle worker (which leaves at once) and two items in flight, one of which fails
    {'items': 2, 'tasks': 1, 'conc': 3, 'stop': True, 'task_raises': [0, 0]},
    {'items': 2, 'tasks': 2, 'conc': 3, 'stop': True, 'task_raises': [1, 1], 'source_delay': True},
    {'items': 3, 'tasks': 1, 'conc': 4, 'stop': True, 'task_raises': [0, 1]},
    {'items': 1, 'tasks': 1, 'conc': 1, 'source_raises_at': 0, 'source_raise_kind': 'chained'},
]


def worker(job):
    import compat
    compat.install()
    part = common.Part()
    if 'replay' in job and job['replay']['cfg'].get('app'):
        from checks import c13b_app
        rp = job['replay']
        obs = c13b_app.run_one(rp['cfg'], sched.ReplayChooser(rp['vector']))
        c13b_app.judge(obs, part, rp)
        part.evaluations += 1
        part.sample({'cfg': rp['cfg'], 'trace': obs['trace'], 'log': obs['log'][-20:], 'main_done': obs['main_done']})
        return part.dump()
    if 'replay' in job:
        rp = job['replay']
        obs = run_one(rp['cfg'], sched.ReplayChooser(rp['vector']))
        judge(obs, part, rp)
        part.evaluations += 1
        part.sample({'cfg': rp['cfg'], 'trace': obs['trace'], 'log': obs['log'][-20:], 'main_done': obs['main_done']})
        return part.dump()
    rng = random.Random(job['seed'])
    schedules = set()
    for cfg in job['dfs_cfgs']:
        runs = 0
        last = {}

        def run(chooser, cfg=cfg):
            last['obs'] = run_one(cfg, chooser)
        gen = sched.dfs_vectors(run, job['dfs_runs'], job['dfs_depth'])
        st = None
        for chooser, st in gen:
            runs += 1
            obs = last['obs']
            replay = {'cfg': cfg, 'vector': chooser.vector}
            judge(obs, part, replay)
            part.evaluations += 1
            key = common.jhash([cfg, chooser.vector])
            if obs.get('max_in_flight', 0) >= 2:
                part.nontrivial_case(key)
            schedules.add(key)
        part.count('dfs_configs')
        part.count('dfs_runs', runs)
        if st and st['exhausted'] and not st['truncated_depth']:
            part.count('dfs_configs_exhausted')
    for n in range(job['n_random']):
        cfg = gen_cfg(rng, small=False)
        chooser = sched.RandomChooser(rng.randrange(1 << 30), ready_bias=rng.choice([0.2, 0.5, 0.8]))
        obs = run_one(cfg, chooser)
        replay = {'cfg': cfg, 'vector': chooser.vector}
        judge(obs, part, replay)
        part.evaluations += 1
        part.count('random_runs')
        key = common.jhash([cfg, chooser.vector])
        schedules.add(key)
        if obs.get('max_in_flight', 0) >= 2:
            part.nontrivial_case(key)
        if n % 97 == 0:
            part.sample({'cfg': cfg, 'trace': obs['trace'][:30], 'log': obs['log'][:14]})
    # monitor B: the application's pipeline series (start, download, skippable ones, stop) with stop requests and pauses
    from checks import c13b_app
    for n in range(job.get('n_app', 0)):
        cfg = c13b_app.gen_cfg(rng)
        chooser = sched.RandomChooser(rng.randrange(1 << 30), ready_bias=rng.choice([0.2, 0.5, 0.8]))
        obs = c13b_app.run_one(cfg, chooser)
        c13b_app.judge(obs, part, {'cfg': cfg, 'vector': chooser.vector})
        part.evaluations += 1
        schedules.add(common.jhash([cfg, chooser.vector]))
    part.count('distinct_schedules', len(schedules))
    return part.dump()


def main():
    check = common.Check('C13')
    check.rule = ('real Pipeline on the controlled scheduler; configurations (items 0-7, 1-3 tasks, concurrency 1-4, '
                  'concurrency changes incl. 0, stop request, task/source exceptions, delayed source); DFS over all choice '
                  'vectors for the directed small configurations (bounded depth) and random schedules for generated ones; '
                  'distinct_nontrivial = distinct (config, choice vector) with >= 2 items in flight at some step')
    check.assumptions = ['ready callbacks run FIFO as asyncio documents; only harness-controlled external events '
                         '(task completions, source readiness, stop, concurrency changes) are reordered',
                         'initial concurrency is >= 1 (pausing is exercised by changes while running)']
    target = 'checks.c13_pipeline:worker'
    if check.args.replay:
        with open(check.args.replay) as f:
            rp = json.load(f)
        res = par.run_jobs(target, [{'seed': 0, 'replay': rp['replay']}], 1, timeout=120)
    else:
        nj = check.jobs
        dfs_runs = 150000 if check.thorough else 4000
        n_random = int((1500000 if check.thorough else 80000) * check.scale)
        jobs = []
        for i in range(nj):
            jobs.append({'seed': check.seed * 1000003 + i, 'dfs_cfgs': DIRECTED[i::nj], 'dfs_runs': dfs_runs,
                         'dfs_depth': 60 if check.thorough else 30, 'n_random': n_random // nj,
                         'n_app': int((200000 if check.thorough else 6000) * check.scale) // nj})
        res = par.run_jobs(target, jobs, check.jobs, timeout=7200 if check.thorough else 900)
    for r in res:
        if '_error' in r:
            check.note_inconclusive('worker: ' + r['_error'] + ' ' + r.get('_stderr', '')[-400:])
        else:
            check.merge(r)
    check.finish(required_counters=() if check.args.replay else (
        'process_returned', 'all_items_exactly_once', 'dfs_runs', 'random_runs', 'app_run_returned', 'app_stop_returned'))


if __name__ == '__main__':
    main()
