'''C05 - every WARC file is a valid record sequence with correct lengths and digests (oracle_c05).'''
from checks import warc_common

if __name__ == '__main__':
    warc_common.main(
        'C05',
        'the C04 corpus across recorder configurations (compression, digests, size rollover with tiny max sizes, '
        'appending with a second recorder, log record, extra warcinfo fields incl. long/non-ASCII/colon/multi-line '
        'values, dedup -> revisit records); every file parsed by a strict independent reader which recomputes '
        'lengths, digests, IDs, warcinfo pointers and gzip member boundaries. distinct_nontrivial = distinct '
        '(header style, framing, coding, segmentation, recorder config bits)',
        ('records_parsed', 'block_digests_checked', 'payload_digests_checked', 'warcinfo_pointers_checked'))
