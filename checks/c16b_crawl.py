'''C16 monitor B - requests of a whole crawl carry no credentials or cookies of another host.

The real application crawls two or three origins that link to each other (pages, redirects in both directions,
embedded objects).  Start URLs carry user info, and / or a login is configured with --http-user; every origin sets its
own cookie.  Every marker is unique per origin (user, password, cookie value), so the oracle is a plain search: the raw
bytes of a request that arrived at origin X must not contain a marker that belongs to origin Y - in any field (the
derived Referer included), in any encoding the crawler uses for credentials (plain, percent-encoded, Basic base64).
'''
import base64
import os
import random
import shutil
import tempfile
import urllib.parse

from harness import common

HOSTS = ['a.test', 'b.test', 'c.test']


def gen_case(rng):
    n = rng.choice([2, 3])
    hosts = HOSTS[:n]
    creds = {}
    for h in hosts:
        if rng.random() < 0.6:
            creds[h] = [rng.choice(['user', 'u.ser', 'u%40ser', 'us er']) + '-' + h[0], rng.choice(['s3cret', 'p:w', 'p@ss', 'p/w?x', 'pä']) + '-' + h[0] + 'Z']
    if not creds:
        creds[hosts[0]] = ['user-a', 's3cret-aZ']
    return {'crawl': True, 'hosts': hosts, 'creds': creds, 'login_option': rng.random() < 0.25,
            'start_with_userinfo': rng.random() < 0.85, 'redirect_codes': [rng.choice([301, 302, 303, 307, 308]) for _ in range(2)],
            'concurrent': rng.choice([1, 1, 3]), 'seed': rng.randrange(1 << 30), 'link_userinfo': rng.random() < 0.3,
            # how the user info is written in URLs: both parts, a password without a user name (the name may come from an
            # option or be empty by convention), a name with an empty password
            'ui_shape': rng.choice(['both', 'both', 'pw-only', 'pw-only', 'empty-pw'])}


def markers_of(host, cred, cookie):
    '''Strings whose presence in a request shows that this origin's secrets were sent.'''
    user, pw = cred if cred else (None, None)
    out = {cookie}
    if cred:
        for s in (pw, urllib.parse.quote(pw, safe=''), urllib.parse.quote(pw, safe='').lower(),
                  base64.b64encode(':{}'.format(pw).encode('utf-8')).decode(), base64.b64encode('{}:'.format(pw).encode('utf-8')).decode(),
                  base64.b64encode('{}:{}'.format(user, pw).encode('utf-8')).decode(),
                  base64.b64encode('{}:{}'.format(user, pw).encode('latin-1', 'replace')).decode()):
            out.add(s)
    return out


def run_case(case, part):
    from harness import servers, crawl
    rng = random.Random(case['seed'])
    hosts = case['hosts']
    cookies = {h: 'ck-of-%s-%06d' % (h[0], rng.randrange(10 ** 6)) for h in hosts}
    html = [('Content-Type', 'text/html; charset=utf-8')]
    addrs, port = servers.allocate_addresses(len(hosts))
    addr_host = dict(zip(addrs, hosts))

    def userinfo(h):
        c = case['creds'].get(h)
        if not c:
            return ''
        shape = case.get('ui_shape', 'both')
        if shape == 'pw-only':
            return ':{}@'.format(urllib.parse.quote(c[1], safe=''))
        if shape == 'empty-pw':
            # (the secret sits in the name part)
            return '{}:@'.format(urllib.parse.quote(c[1], safe=''))
        return '{}:{}@'.format(urllib.parse.quote(c[0], safe=''), urllib.parse.quote(c[1], safe=''))

    def handler(req):
        h = addr_host[req['addr']]
        t = req['target']
        others = [o for o in hosts if o != h]
        setc = [('Set-Cookie', 'sid=%s; Path=/' % cookies[h])]
        if t == '/':
            links = ''.join('<a href="http://%s%s/page.html">x</a><img src="http://%s/pic.png"><a href="/to-%s">r</a>' % (
                (userinfo(o) if case['link_userinfo'] else ''), o, o, o[0]) for o in others)
            return {'status': 200, 'headers': html + setc, 'body': ('<html><body>%s<a href="/in.html">in</a></body></html>' % links).encode()}
        if t.startswith('/to-'):
            o = next((x for x in others if x[0] == t[4:5]), others[0])
            code = case['redirect_codes'][hosts.index(h) % 2]
            return {'status': code, 'reason': 'R', 'headers': [('Location', 'http://%s/landing.html' % o)] + setc, 'body': b''}
        if t in ('/page.html', '/in.html', '/landing.html'):
            back = ''.join('<a href="http://%s/back.html">b</a>' % o for o in others)
            return {'status': 200, 'headers': html + setc, 'body': ('<html><body>%s</body></html>' % back).encode()}
        if t == '/pic.png':
            return {'status': 200, 'headers': [('Content-Type', 'image/png')] + setc, 'body': b'\x89PNG\r\n\x1a\n0000'}
        if t == '/back.html':
            return {'status': 200, 'headers': html, 'body': b'<html><body>end</body></html>'}
        return {'status': 404, 'reason': 'NF', 'headers': html, 'body': b'nf'}
    srv = servers.Server(handler, addrs, port).start()
    tmp = tempfile.mkdtemp(prefix='vc16c')
    try:
        starts = ['http://%s%s/' % (userinfo(h) if case['start_with_userinfo'] else '', h) for h in hosts if h in case['creds']]
        argv = starts + ['-r', '--level', '3', '--span-hosts', '--page-requisites', '--no-robots', '--database', os.path.join(tmp, 'db'),
                         '-P', tmp, '--quiet', '--tries', '1', '--waitretry', '0', '--timeout', '10', '--concurrent', str(case['concurrent'])]
        login_host = None
        if case['login_option']:
            # a configured login is the user's statement that these credentials go to every server: exempt from the oracle
            login_host = sorted(case['creds'])[0]
            argv += ['--http-user', case['creds'][login_host][0], '--http-password', case['creds'][login_host][1]]
        res = crawl.run_app(argv, dict(zip(hosts, addrs)))
        log = srv.log.snapshot()
    finally:
        srv.stop()
        shutil.rmtree(tmp, ignore_errors=True)
    part.evaluations += 1
    part.count('crawls')
    replay = case
    if res['crashed']:
        part.violation('crawl-crashed', {'exception': res['exception'], 'log': res['log'][-400:]}, replay)
        return
    secrets = {h: markers_of(h, case['creds'].get(h) if h != login_host else None, cookies[h]) for h in hosts}
    seen_cross = False
    for e in log:
        here = addr_host[e['addr']]
        raw = e['raw'].decode('latin-1')
        part.count('crawl_requests_checked')
        for other in hosts:
            if other == here:
                continue
            seen_cross = True
            for m in secrets[other]:
                if m and m in raw:
                    field = next((n for n, v in e['headers'] if m in v), 'request-line')
                    kind = 'cookie' if m == cookies[other] else 'credentials'
                    part.violation('{}-of-one-origin-sent-to-another/in-{}'.format(kind, field.lower()),
                                   {'sent_to': here, 'belongs_to': other, 'request': raw[:400]}, replay)
                    break
        if any(n.lower() == 'referer' for n, v in e['headers']):
            part.count('crawl_requests_with_referer')
    if seen_cross:
        part.count('crawls_with_requests_to_several_origins')
    part.nontrivial_case('crawl/{}/{}/{}/{}'.format(len(hosts), sorted(case['creds']), case['login_option'], case.get('ui_shape')))
