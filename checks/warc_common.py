'''Oracles of C04 (wire bytes == record blocks), C05 (valid record sequence, lengths, digests) and
C07 (CDX lines address their records) over the shared WARC workload (harness.warcwork).'''
import json
import random
import re

from harness import common, par, refwarc, warcwork


def parse_files(obs, part, prop, replay):
    '''Parse every archive file strictly. Returns {filename: [records]} or None.'''
    out = {}
    if obs.get('close_error'):
        # closing the recorder (last records, moving the finished files) failed: the archive set is not what a run leaves
        part.violation('recorder-close-raised/' + obs['close_error'].split(':')[0], {'error': obs['close_error'], 'config': obs['config']}, replay)
        return None
    for name, data in obs['files'].items():
        if name.endswith('.warc.gz') or name.endswith('.warc'):
            try:
                out[name] = refwarc.read_warc(data, name.endswith('.gz'))
            except refwarc.WarcError as e:
                if prop == 'C05':
                    part.violation('invalid-record-sequence/' + classify_warc_error(str(e)),
                                   {'file': name, 'error': str(e)[:300], 'config': obs['config']}, replay)
                elif prop == 'C04' and getattr(e, 'rec_type', None) in ('request', 'response', 'revisit'):
                    # the record whose block cannot be delimited by its own Content-Length is a request/response
                    # record itself: its block is not the bytes of the exchange (it swallows or loses bytes)
                    part.violation('record-block-not-delimited-by-its-length/' + e.rec_type,
                                   {'file': name, 'error': str(e)[:300], 'config': obs['config']}, replay)
                elif prop != 'C07':
                    part.inconclusive.append('archive unreadable (C05 territory): ' + str(e)[:200])
                return None
    return out


def classify_warc_error(msg):
    for k in ('gzip member', 'holds more than one record', 'bad version line', 'not followed by CRLF CRLF',
              'Content-Length', 'malformed header line', 'unterminated header'):
        if k in msg:
            return k.replace(' ', '-')
    return 'other'


# ------------------------------------------------------------------------------------------ C04
def oracle_c04(obs, part, replay):
    files = parse_files(obs, part, 'C04', replay)
    if files is None:
        return None
    recs = [r for name in sorted(files) for r in files[name]]
    by_uri = {}
    for r in recs:
        if r['type'] in ('request', 'response', 'revisit'):
            by_uri.setdefault(r['fmap'].get('warc-target-uri', [None])[0], []).append(r)
    blocks = []
    for ex in obs['exchanges']:
        cls = ex['classes']
        rs = by_uri.pop(ex['url'], [])
        reqs = [r for r in rs if r['type'] == 'request']
        resps = [r for r in rs if r['type'] in ('response', 'revisit')]
        key_tail = cls['framing']
        if ex['error'] is None:
            part.count('completed_exchanges')
            if len(reqs) != 1 or len(resps) != 1:
                part.violation('record-count/{}'.format(key_tail),
                               {'url': ex['url'], 'requests': len(reqs), 'responses': len(resps)}, replay)
                continue
            req, resp = reqs[0], resps[0]
            if req['block'] != ex['request_bytes']:
                part.violation('request-block-differs', {'url': ex['url'], 'block': req['block'][:200],
                                                         'wire': (ex['request_bytes'] or b'')[:200]}, replay)
            else:
                part.count('request_blocks_equal_wire')
            want = ex['response_bytes']
            if resp['type'] == 'revisit':
                cut = refwarc.http_payload_offset(want)
                if resp['block'] != want[:len(resp['block'])]:
                    part.violation('revisit-block-not-a-prefix-of-wire/' + key_tail, {'url': ex['url']}, replay)
                if not ex.get('expect_revisit'):
                    # a header-only record stands for the response only when the identical payload is archived already
                    part.violation('response-cut-to-a-revisit-although-its-payload-is-not-archived/' +
                                   ('changed-document' if ex.get('changed_since_archived') else 'unknown-url'),
                                   {'url': ex['url'], 'block_len': len(resp['block']), 'wire_len': len(want)}, replay)
                part.count('revisit_records')
            elif resp['block'] != want:
                part.violation('response-block-differs/{}'.format(key_tail),
                               {'url': ex['url'], 'classes': cls, 'block_len': len(resp['block']),
                                'wire_len': len(want), 'first_diff': first_diff(resp['block'], want),
                                'block_tail': resp['block'][-60:], 'wire_tail': want[-60:]}, replay)
            else:
                part.count('response_blocks_equal_wire')
            if resp['fmap'].get('warc-concurrent-to', [None])[0] != req['id']:
                part.violation('concurrent-to-mismatch', {'url': ex['url']}, replay)
            blocks.append((resp['type'], resp['block']))
        else:
            part.count('failed_exchanges')
            if resps:
                part.count('failed_exchange_with_response_record')
            blocks.append(None)
    for uri, rs in by_uri.items():
        part.violation('record-for-unknown-uri', {'uri': uri, 'types': [r['type'] for r in rs]}, replay)
    return blocks


def first_diff(a, b):
    for i in range(min(len(a), len(b))):
        if a[i] != b[i]:
            return i
    return min(len(a), len(b))


# ------------------------------------------------------------------------------------------ C05
def oracle_c05(obs, part, replay):
    files = parse_files(obs, part, 'C05', replay)
    if files is None:
        return
    cfg = obs['config']
    ids = {}
    for name in sorted(files):
        recs = files[name]
        part.count('files_parsed')
        part.count('records_parsed', len(recs))
        if not recs:
            continue
        first = recs[0]
        if first['type'] != 'warcinfo':
            part.violation('first-record-not-warcinfo', {'file': name, 'type': first['type']}, replay)
        # in appending mode a file may hold several warcinfo records; each record must point at the
        # nearest preceding warcinfo of the same file (the one that was current when it was written)
        current_info = None
        for r in recs:
            for p in r['problems']:
                part.violation('header-problem/' + classify_header_problem(p), {'file': name, 'problem': p,
                               'type': r['type'], 'config': cfg}, replay)
            if r['id'] in ids:
                part.violation('duplicate-record-id', {'id': r['id'], 'files': [ids[r['id']], name]}, replay)
            ids[r['id']] = name
            if r['type'] == 'warcinfo':
                current_info = r['id']
            winfo = r['fmap'].get('warc-warcinfo-id', [None])[0]
            if winfo != current_info:
                part.violation('warcinfo-id-not-of-this-file', {'file': name, 'type': r['type'],
                               'points_to': winfo, 'file_warcinfo': current_info,
                               'known_in': ids.get(winfo)}, replay)
            else:
                part.count('warcinfo_pointers_checked')
            if r['fmap'].get('content-type', [''])[0] == 'application/warc-fields':
                # the block of a warcinfo record is itself a list of named fields: one line each (or folded
                # continuation lines that start with white space), CRLF line ends
                for ln in r['block'].split(b'\r\n'):
                    if ln == b'':
                        continue
                    if b'\r' in ln or b'\n' in ln:
                        part.violation('warc-fields-block-bare-cr-or-lf', {'file': name, 'line': ln[:80], 'config': cfg}, replay)
                        break
                    if ln[:1] in (b' ', b'\t'):
                        continue
                    if not refwarc.FIELD_RE.match(ln) and not re.match(br'^[^\s:]+:', ln):
                        part.violation('warc-fields-block-line-not-a-named-field', {'file': name, 'line': ln[:80],
                                                                                   'config': cfg}, replay)
                        break
                else:
                    part.count('warc_fields_blocks_checked')
            bd = r['fmap'].get('warc-block-digest', [None])[0]
            if bd is not None:
                if bd != refwarc.b32sha1(r['block']):
                    part.violation('block-digest-wrong/' + str(r['type']), {'file': name}, replay)
                else:
                    part.count('block_digests_checked')
            elif cfg['digests'] and r['type'] not in ('warcinfo',) and False:
                pass
            pd = r['fmap'].get('warc-payload-digest', [None])[0]
            ctype = r['fmap'].get('content-type', [''])[0]
            if r['type'] in ('request', 'response', 'revisit') and ctype.startswith('application/http'):
                off = refwarc.http_payload_offset(r['block'])
                if off is None:
                    part.count('http_block_without_header_end')
                    continue
                cls = exchange_class(obs, r)
                if r['type'] == 'revisit':
                    if len(r['block']) != off:
                        part.violation('revisit-block-not-cut-at-header-end/' + cls,
                                       {'file': name, 'block_len': len(r['block']), 'header_end': off}, replay)
                    else:
                        part.count('revisit_blocks_checked')
                    for need in ('warc-refers-to', 'warc-profile'):
                        if need not in r['fmap']:
                            part.violation('revisit-missing-' + need, {'file': name}, replay)
                elif pd is not None:
                    if pd != refwarc.b32sha1(r['block'][off:]):
                        part.violation('payload-digest-wrong/{}/{}'.format(r['type'], cls),
                                       {'file': name, 'header_end': off, 'block_len': len(r['block']),
                                        'uri': r['fmap'].get('warc-target-uri')}, replay)
                    else:
                        part.count('payload_digests_checked')
                elif cfg['digests']:
                    part.violation('payload-digest-missing/' + str(r['type']), {'file': name}, replay)
    # expected revisits really became revisits (dedup by payload digest)
    for ex in obs['exchanges']:
        if ex.get('expect_revisit') and ex['error'] is None and cfg['digests']:
            found = [r for recs in files.values() for r in recs
                     if r['fmap'].get('warc-target-uri', [None])[0] == ex['url'] and r['type'] in ('response', 'revisit')]
            if found and found[0]['type'] != 'revisit':
                part.violation('identical-payload-not-recorded-as-revisit/' + style_class(ex['classes']),
                               {'url': ex['url'], 'classes': ex['classes']}, replay)
            elif found:
                part.count('revisits_as_expected')
    if obs.get('leftover_tmp'):
        part.count('leftover_temp_files', len(obs['leftover_tmp']))
    # FTP sessions: one control-conversation (metadata) record per session and, for completed transfers, one
    # resource record whose block is exactly the transferred bytes and which names the conversation as concurrent
    for f in obs.get('ftp') or []:
        recs = [r for rs in files.values() for r in rs if r['fmap'].get('warc-target-uri', [None])[0] == f['url']]
        meta = [r for r in recs if r['type'] == 'metadata']
        res = [r for r in recs if r['type'] == 'resource']
        part.count('ftp_sessions_recorded')
        if f['error'] is None:
            if len(meta) != 1 or len(res) != 1:
                part.violation('ftp-record-count', {'url': f['url'], 'metadata': len(meta), 'resource': len(res)}, replay)
                continue
            if res[0]['block'] != f['data']:
                part.violation('ftp-resource-block-differs', {'url': f['url'], 'block_len': len(res[0]['block']),
                                                              'data_len': len(f['data'])}, replay)
            elif res[0]['fmap'].get('warc-concurrent-to', [None])[0] != meta[0]['id']:
                part.violation('ftp-resource-not-concurrent-to-conversation', {'url': f['url']}, replay)
            else:
                part.count('ftp_resource_blocks_equal_data')


def classify_header_problem(p):
    if 'folded' in p:
        return 'folded-line'
    if 'bare CR/LF' in p:
        return 'bare-cr-lf'
    if 'occurs' in p:
        return 'field-count'
    return 'other'


def style_class(cls):
    '''Header block canonical (as wpull would re-serialise it) or not.'''
    style = cls['style']
    canonical = style in ('canonical',)
    trailer = bool(cls.get('chunk_style') and cls['chunk_style'].get('trailer'))
    if trailer:
        return 'chunked-trailer'
    return 'canonical-header' if canonical else 'non-canonical-header'


def exchange_class(obs, rec):
    uri = rec['fmap'].get('warc-target-uri', [None])[0]
    for ex in obs['exchanges']:
        if ex['url'] == uri:
            if rec['type'] == 'request':
                return 'request'
            return style_class(ex['classes'])
    return 'unknown'


# ------------------------------------------------------------------------------------------ C07
def oracle_c07(obs, part, replay):
    cfg = obs['config']
    if not cfg['cdx']:
        return
    if obs.get('duplicate_names'):
        # a CDX line names its file; two files of that name (one moved away, one written anew) make the line ambiguous
        part.violation('two-archive-files-with-one-name', {'names': obs['duplicate_names'], 'config': cfg}, replay)
        return
    if cfg.get('move'):
        part.count('cdx_cases_with_moved_files')
    files = parse_files(obs, part, 'C07', replay)
    if files is None:
        # some archive file is not a record sequence as a whole (C05's subject).  C07's own clause can still be decided
        # line by line: the byte range of a CDX line, taken alone, must be exactly one complete record with the line's id
        decided = False
        try:
            cdx_names = [n for n in obs['files'] if n.endswith('.cdx')]
            keys, rows = refwarc.read_cdx(obs['files'][cdx_names[0]].decode('utf-8'))
        except Exception:
            rows = []
        for row in rows:
            try:
                data = obs['files'][row['g']]
                off, size = int(row['V']), int(row['S'])
                sl = refwarc.read_warc(data[off:off + size], row['g'].endswith('.gz'))
                if len(sl) != 1 or sl[0]['id'] != row.get('u'):
                    raise refwarc.WarcError('range holds {} records'.format(len(sl)))
            except (refwarc.WarcError, KeyError, ValueError) as e:
                decided = True
                part.violation('cdx-range-is-not-one-complete-record', {'row': row, 'error': str(e)[:200], 'config': cfg}, replay)
        if not decided:
            part.inconclusive.append('archive unreadable (C05 territory) and every CDX range parses')
        return
    cdx_names = [n for n in obs['files'] if n.endswith('.cdx')]
    if len(cdx_names) != 1:
        part.violation('cdx-file-count', {'names': cdx_names}, replay)
        return
    try:
        keys, rows = refwarc.read_cdx(obs['files'][cdx_names[0]].decode('utf-8'))
    except refwarc.WarcError as e:
        part.violation('cdx-unreadable/' + ('second-header' if 'second CDX header' in str(e) else 'format'),
                       {'error': str(e), 'config': cfg}, replay)
        return
    except UnicodeDecodeError as e:
        part.violation('cdx-not-utf8', {'error': str(e)}, replay)
        return
    part.count('cdx_files_parsed')
    want = {}
    for name, recs in files.items():
        for r in recs:
            ctype = r['fmap'].get('content-type', [''])[0]
            if r['type'] == 'response' and re.match(r'application/http; *msgtype *= *response', ctype):
                want[r['id']] = (name, r)
    seen = {}
    for row in rows:
        part.count('cdx_lines')
        rid = row.get('u')
        if rid in seen:
            part.violation('duplicate-cdx-line', {'id': rid}, replay)
        seen[rid] = row
        if rid not in want:
            part.violation('cdx-line-without-response-record', {'row': row}, replay)
            continue
        name, rec = want[rid]
        cls = exchange_class(obs, rec)
        if row.get('g') != name:
            part.violation('cdx-filename-wrong', {'row': row, 'actual_file': name, 'config': cfg}, replay)
            continue
        data = obs['files'][name]
        try:
            off, size = int(row['V']), int(row['S'])
        except (KeyError, ValueError):
            part.violation('cdx-offset-not-int', {'row': row}, replay)
            continue
        if (off, size) != (rec['raw_offset'], rec['raw_length']):
            part.violation('cdx-range-wrong', {'row': row, 'actual': [rec['raw_offset'], rec['raw_length']],
                                               'config': cfg}, replay)
        else:
            # independent confirmation: the slice alone parses to exactly that record
            try:
                sl = refwarc.read_warc(data[off:off + size], name.endswith('.gz'))
                if len(sl) != 1 or sl[0]['id'] != rid:
                    part.violation('cdx-slice-not-one-record', {'row': row}, replay)
                else:
                    part.count('cdx_ranges_confirmed')
            except refwarc.WarcError as e:
                part.violation('cdx-slice-unparseable', {'row': row, 'error': str(e)}, replay)
        if row.get('a') != rec['fmap'].get('warc-target-uri', [None])[0]:
            part.violation('cdx-url-wrong', {'row': row}, replay)
        pd = rec['fmap'].get('warc-payload-digest', [None])[0]
        want_k = pd[5:] if pd and pd.startswith('sha1:') else '-'
        if row.get('k') != want_k:
            part.violation('cdx-checksum-wrong', {'row': row, 'record': pd}, replay)
        status, mime = refwarc.http_status_and_mime(rec['block'])
        long_header = '/header-over-4KiB' if (refwarc.http_payload_offset(rec['block']) or 0) > 4096 else ''
        head_end = refwarc.http_payload_offset(rec['block']) or len(rec['block'])
        if any(ln and b':' not in ln and ln[:1] not in b' \t' for ln in re.split(br'\r?\n', rec['block'][:head_end].lstrip(b'\r\n'))[1:]):
            long_header += '/colonless-line'
            part.count('cdx_lines_for_headers_with_colonless_line')
        if re.search(br'(?im)^content-type:[ \t]*\r?\n[ \t]', rec['block'][:head_end]):
            long_header += '/folded-content-type'
            part.count('cdx_lines_for_folded_content_type')
        if head_end - (2 if rec['block'][head_end - 2:head_end] == b'\r\n' else 1) >= 32766:
            long_header += '/header-at-reader-limit'
            part.count('cdx_lines_for_headers_at_the_reader_limit')
        if len(row.get('a') or '') >= 1024:
            part.count('cdx_lines_for_urls_of_1024_or_more')
        if row.get('s') != (status or '-'):
            part.violation('cdx-status-wrong' + long_header, {'row_s': row.get('s'), 'archived': status,
                                                'head': rec['block'][:120]}, replay)
        else:
            part.count('cdx_status_checked')
        if row.get('m') != (mime or '-'):
            part.violation('cdx-mime-wrong' + long_header, {'row_m': row.get('m'), 'archived': mime,
                                              'head': rec['block'][:160]}, replay)
        else:
            part.count('cdx_mime_checked')
        part.nontrivial_case('cdx/{}/{}/{}/{}'.format(cfg['compress'], name, mime, cls))
    for rid, (name, rec) in want.items():
        if rid not in seen:
            part.violation('response-record-without-cdx-line', {'file': name, 'config': cfg,
                                                                'uri': rec['fmap'].get('warc-target-uri')}, replay)


ORACLES = {'C04': oracle_c04, 'C05': oracle_c05, 'C07': oracle_c07}


def worker(job):
    import compat
    compat.install()
    part = common.Part()
    prop = job['property']
    if 'replay' in job:
        case = common.unjson(job['replay'])
        obs = warcwork.run_case(case)
        ORACLES[prop](obs, part, case)
        part.evaluations += 1
        part.sample({'files': {k: len(v) for k, v in obs['files'].items()}})
        return part.dump()
    rng = random.Random(job['seed'])
    for n in range(job['n']):
        r0 = rng.random()
        case = warcwork.gen_overlap_case(rng) if r0 < 0.12 else warcwork.gen_redirect_case(rng) if r0 < 0.2 else warcwork.gen_case(rng)
        if prop == 'C05' and 0.2 <= r0 < 0.23:
            case = warcwork.gen_coprocessor_case(rng)
        if prop == 'C07':
            case['config']['cdx'] = True
            if case['seq']:
                vary_content_types(rng, case)
        if prop == 'C05' and case['seq'] and not case.get('overlap') and not case.get('whole_only') and rng.random() < 0.05:
            # the last response is preceded by an interim 100 Continue / 103 Early Hints message.  Which of the two messages
            # the client takes for the response is C08's subject; whatever it archives must be a valid record whose payload
            # digest is that of the bytes after the block's first header block
            from harness import httpgen
            last = httpgen.gen_response(rng, allow=['interim'])
            last['then'] = 'eof'
            case['seq'][-1] = last
            case.pop('stall_last_at', None)
            case['config']['dedup'] = False       # (the dedup seeding presumes which message is the response)
            part.count('cases_ending_with_an_interim_response')
        if case.get('coprocessor'):
            obs = warcwork.run_case(case)
            part.evaluations += 1
            part.count('cases_with_coprocessor_records')
            if obs.get('error'):
                part.inconclusive.append('coprocessor session failed: ' + obs['error'])
            ORACLES[prop](obs, part, case)
        elif case.get('redirects'):
            obs = warcwork.run_case(case)
            part.evaluations += 1
            part.count('cases_with_followed_redirects')
            ORACLES[prop](obs, part, case)
            note_nontrivial(part, obs, 'redirects')
        elif case.get('overlap'):
            obs = warcwork.run_case(case)
            part.evaluations += 1
            part.count('cases_with_exchanges_in_flight_at_once')
            part.count('exchanges_begun_while_another_was_in_flight', obs['overlaps'])
            ORACLES[prop](obs, part, case)
            note_nontrivial(part, obs, 'overlap')
        elif prop == 'C04':
            # same script under several segmentations: blocks must be identical (metamorphic)
            ref_blocks = None
            for mode in (('whole',) if case.get('whole_only') else ('whole', 'bytes', 'cut', 'random')):
                c2 = dict(case, seg_mode=mode, seg_seed=case['seg_seed'] + 1)
                obs = warcwork.run_case(c2)
                part.evaluations += 1
                part.count('seg_' + mode)
                blocks = oracle_c04(obs, part, c2)
                note_nontrivial(part, obs, mode)
                if blocks is None:
                    continue
                if ref_blocks is None:
                    ref_blocks = blocks
                elif blocks != ref_blocks:
                    k = next((i for i in range(min(len(blocks), len(ref_blocks))) if blocks[i] != ref_blocks[i]), -1)
                    cls = case['seq'][k]['classes'] if 0 <= k < len(case['seq']) else None
                    overrun_poison = any(r['classes']['framing'] in ('overrun',) for r in case['seq'][:max(k, 0)])
                    key = 'blocks-depend-on-segmentation/' + (cls['framing'] if cls else '?')
                    if overrun_poison:
                        key = 'blocks-depend-on-segmentation/after-overrun-poison'
                    part.violation(key, {'exchange': k, 'mode': mode, 'classes': cls}, c2)
                else:
                    part.count('blocks_identical_across_segmentations')
        else:
            obs = warcwork.run_case(case)
            part.evaluations += 1
            ORACLES[prop](obs, part, case)
            note_nontrivial(part, obs, case['seg_mode'])
        if n % 5 == 0:
            part.sample({'config': case['config'], 'responses': [r['classes'] for r in case['seq']],
                         'files': sorted(obs['files'])})
    return part.dump()


def vary_content_types(rng, case):
    for r in case['seq']:
        ct = rng.choice([b'text/html', b'text/html; charset=utf-8', b'TEXT/HTML', b'application/octet-stream',
                         b'image/svg+xml', b'garbage', b'', b'text/plain;charset="x"', b' text/css'])
        if rng.random() < 0.15:
            r['wire'] = re.sub(br'(?im)^content-type:[^\r\n]*\r?\n', b'', r['wire'], count=1)
        else:
            new = re.sub(br'(?im)^(content-type:[ \t]*)text/html', lambda m: m.group(1) + ct, r['wire'], count=1)
            if len(new) != len(r['wire']):
                delta = len(new) - len(r['wire'])
                r['boundaries'] = [b + delta if b > 20 else b for b in r['boundaries']]
                r['head_len'] += delta
            r['wire'] = new
        if rng.random() < 0.1:
            # obs-fold: the value of Content-Type starts on a continuation line (SP or TAB indented)
            m = re.search(br'(?im)^(content-type:)[ \t]*([^\r\n]*)(\r?\n)', r['wire'][:r['head_len']])
            if m and m.group(2):
                new = m.group(1) + m.group(3) + rng.choice([b'\t', b' ', b'\t \t', b'  ']) + m.group(2) + m.group(3)
                delta = len(new) - (m.end() - m.start())
                r['wire'] = r['wire'][:m.start()] + new + r['wire'][m.end():]
                r['boundaries'] = [b + delta if b >= m.end() else b for b in r['boundaries']]
                r['head_len'] += delta
                r['classes'] = dict(r['classes'], folded_content_type=True)
        if rng.random() < 0.12:
            # a header line without a colon (a stray status line or cache note that servers do emit): the client
            # skips it, the archived block keeps it, status and MIME type must still be read back
            eol = r['wire'].find(b'\n') + 1
            end = b'\r\n' if r['wire'][:eol].endswith(b'\r\n') else b'\n'
            junk = rng.choice([b'X-Cache HIT from proxy', b'HTTP/1.0 200 OK', b'garbage', b'Status 200']) + end
            r['wire'] = r['wire'][:eol] + junk + r['wire'][eol:]
            r['boundaries'] = [b + len(junk) if b >= eol else b for b in r['boundaries']]
            r['head_len'] += len(junk)
            r['classes'] = dict(r['classes'], colonless_line=True)
        if rng.random() < 0.08:
            # header block longer than 4 KiB (status/MIME are read back from the block)
            pad = b'X-Pad: ' + b'p' * rng.choice([3900, 5000, 9000]) + b'\r\n'
            eol = r['wire'].find(b'\n') + 1
            r['wire'] = r['wire'][:eol] + pad + r['wire'][eol:]
            r['boundaries'] = [b + len(pad) if b >= eol else b for b in r['boundaries']]
            r['head_len'] += len(pad)
            r['classes'] = dict(r['classes'], long_header=True)
        if rng.random() < 0.02:
            # header block at the size limit of the HTTP reader: status and field lines total exactly 32766..32768 bytes
            # (one more is refused by the client before anything is recorded)
            eol = r['wire'].find(b'\n') + 1
            end = b'\r\n' if r['wire'][:eol].endswith(b'\r\n') else b'\n'
            lines_total = r['head_len'] - len(end)
            target = rng.choice([32766, 32767, 32768])
            k = target - lines_total - len(b'X-Fill: ') - len(end)
            if k > 0:
                pad = b'X-Fill: ' + b'f' * k + end
                r['wire'] = r['wire'][:eol] + pad + r['wire'][eol:]
                r['boundaries'] = [b + len(pad) if b >= eol else b for b in r['boundaries']]
                r['head_len'] += len(pad)
                r['classes'] = dict(r['classes'], long_header=True, header_at_limit=target)
        if rng.random() < 0.06 and r['classes']['framing'] != 'interim':
            # a status line whose reason phrase is empty ("HTTP/1.1 200 " is valid) or missing altogether
            eol = r['wire'].find(b'\n')
            first = r['wire'][:eol]
            m = re.match(br'^(HTTP/1\.[01] \d{3})( [^\r]*)?(\r?)$', first)
            if m:
                new = m.group(1) + rng.choice([b' ', b'', b' ']) + m.group(3)
                delta = len(new) - len(first)
                r['wire'] = new + r['wire'][eol:]
                r['boundaries'] = [b + delta for b in r['boundaries']]
                r['head_len'] += delta
                r['classes'] = dict(r['classes'], empty_reason=True)
        r['boundaries'] = [b for b in r['boundaries'] if 0 < b < len(r['wire'])]
    if rng.random() < 0.08 and case['seq'][-1]['classes']['framing'] not in ('overrun', 'interim') and not case.get('whole_only') and \
            not case.get('stall_last_at'):
        # a response without a Content-Type field whose body looks like a header block itself (a stored e-mail, a MIME
        # multipart, a quoted HTTP trace): status and type are those of the response header, not of anything in the body
        body = rng.choice([
            b'MIME-Version: 1.0\r\nContent-Type: multipart/mixed; boundary=x\r\n\r\n--x\r\nContent-Type: image/x-nonsense\r\n\r\ndata\r\n--x--\r\n',
            b'Content-Type: text/x-in-the-body\r\n\r\nrest of the body\r\n\r\n',
            b'HTTP/1.1 500 Quoted\r\nContent-Type: application/x-trace\r\n\r\nquoted exchange\n\n',
            b'From: a@b\nContent-Type: message/rfc822\n\nhello\n\n'])
        head = b'HTTP/1.1 ' + rng.choice([b'200 OK', b'404 Not Found', b'203 Partial']) + b'\r\nServer: sim\r\nContent-Length: ' + \
            str(len(body)).encode() + b'\r\n\r\n'
        case['seq'][-1] = {'wire': head + body, 'then': 'keep', 'method': 'GET', 'head_len': len(head), 'surplus': 0, 'interim_len': 0,
                           'classes': {'framing': 'length', 'style': 'canonical', 'coding': 'identity', 'body': 'header-like', 'conn_close_linger': False,
                                       'chunk_style': None, 'header_like_body': True},
                           'expect': {'status': 200, 'body': body}, 'boundaries': [len(head), len(head) + 10]}


def note_nontrivial(part, obs, mode):
    cfg = obs['config']
    for ex in obs['exchanges']:
        c = ex['classes']
        part.nontrivial_case('{}/{}/{}/{}|{}{}{}{}{}'.format(
            c['style'], c['framing'], c['coding'], mode, int(cfg['compress']), int(cfg['digests']),
            int(bool(cfg['max_size'])), int(cfg['appending']), int(cfg['dedup'])))


def main(prop, level_rule, required):
    check = common.Check(prop)
    check.rule = level_rule
    check.trusted_base.append('harness/refwarc.py strict independent WARC/gzip/CDX reader')
    target = 'checks.warc_common:worker'
    if check.args.replay:
        with open(check.args.replay) as f:
            rp = json.load(f)
        res = par.run_jobs(target, [{'seed': 0, 'replay': rp['replay'], 'property': prop}], 1)
    else:
        total = int((240000 if check.thorough else 3200) * check.scale)
        if prop == 'C04':
            total //= 3
        nj = check.jobs * (4 if check.thorough else 1)
        jobs = [{'seed': check.seed * 1000003 + i, 'n': max(1, total // nj), 'property': prop} for i in range(nj)]
        res = par.run_jobs(target, jobs, check.jobs, timeout=7200 if check.thorough else 900)
    for r in res:
        if '_error' in r:
            check.note_inconclusive('worker: ' + r['_error'] + ' ' + r.get('_stderr', '')[-400:])
        else:
            check.merge(r)
    check.finish(required_counters=() if check.args.replay else required)
