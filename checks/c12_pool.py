'''C12 - the connection pool never shares, over-allocates, leaks or deadlocks.

The real ConnectionPool / HostPool / HappyEyeballsConnection / Connection (and the BaseSession
acquire/recycle/abort path) run on the controlled scheduler over in-memory transports.  Client
programs proceed at scheduler-chosen external events; faults (cancel a client, connect failure,
remote close) are further external events.  Invariants are asserted between scheduler steps and at
quiescence.
'''
import asyncio
import json
import random

from harness import common, par, sched, netsim


class SilentPeer(netsim.Peer):
    pass


def run_one(cfg, chooser, max_steps=8000):
    from wpull.network.pool import ConnectionPool
    from wpull.protocol.abstract.client import BaseSession
    from wpull.errors import NetworkError
    M = cfg['limit']
    problems = []
    holders = {}          # id(conn) -> set(client)
    conn_objs = {}
    waiting = {}          # client -> key
    finished = set()
    releasing = set()
    outcome = {}
    stats = {'max_contention': 0, 'acquired': 0}
    loop = sched.new_loop(chooser, max_steps=max_steps)
    net = netsim.Net().install()
    connect_serial = [0]

    def connect_gate(host, port):
        connect_serial[0] += 1
        return loop.external_future('connect-done-%d' % connect_serial[0])
    net.connect_gate = connect_gate
    hosts = ['h%d.test' % h for h in range(cfg['hosts'])]
    table = {}
    for h, name in enumerate(hosts):
        ip = '127.0.1.%d' % (h + 1)
        table[name] = ip
        net.add_peer(ip, 80, SilentPeer())
        if cfg.get('dual_stack') and h == 0:
            # the first host resolves to an IPv4 and an IPv6 address: connects race (happy eyeballs)
            ip6 = 'fd00::%d' % (h + 1)
            table[name] = [ip, ip6]
            net.add_peer(ip6, 80, SilentPeer())
    pool = ConnectionPool(max_host_count=M, resolver=netsim.StaticResolver(table),
                          max_count=cfg.get('max_count', 100))

    class HarnessSession(BaseSession):
        pass

    def note_acquired(i, conn):
        stats['acquired'] += 1
        holders.setdefault(id(conn), set()).add(i)
        conn_objs[id(conn)] = conn

    def note_released(i, conn):
        holders.get(id(conn), set()).discard(i)

    async def use(conn, prog):
        # what wpull's streams do before using a pooled connection (Stream.reconnect)
        if prog.get('connect') and conn.closed():
            conn.reset()
            await conn.connect()

    async def client(i, prog):
        host = hosts[prog['host']]
        conn = None
        owned = False
        try:
            await loop.external_future('c%d:acquire' % i)
            waiting[i] = (host, 80, False)
            if prog['kind'] == 'base_session':
                session = HarnessSession(connection_pool=pool)
                with session:
                    conn = await session._acquire_connection(host, 80)
                    waiting.pop(i, None)
                    note_acquired(i, conn)
                    owned = False       # the session hands the connection back itself
                    await use(conn, prog)
                    await loop.external_future('c%d:release' % i)
                    note_released(i, conn)
                    if prog.get('raise_in_session'):
                        raise NetworkError('injected')
                conn = None
            elif prog['kind'] == 'ctx':
                ctx = await pool.session(host, 80)
                waiting.pop(i, None)
                with ctx as c:
                    conn = c
                    owned = False       # the context manager hands the connection back itself
                    note_acquired(i, conn)
                    await use(conn, prog)
                    await loop.external_future('c%d:release' % i)
                    note_released(i, conn)
                conn = None
            else:
                conn = await pool.acquire(host, 80)
                waiting.pop(i, None)
                owned = True
                note_acquired(i, conn)
                await use(conn, prog)
                await loop.external_future('c%d:release' % i)
                note_released(i, conn)
                c, conn = conn, None
                if prog['kind'] == 'closefirst':
                    c.close()
                    pool.no_wait_release(c)
                elif prog['kind'] == 'nowait':
                    pool.no_wait_release(c)
                else:
                    releasing.add(i)
                    await pool.release(c)
            outcome[i] = 'ok'
        except asyncio.CancelledError:
            outcome[i] = 'cancelled'
            waiting.pop(i, None)
            raise
        except NetworkError as e:
            outcome[i] = 'network-error'
            waiting.pop(i, None)
        finally:
            if conn is not None:
                note_released(i, conn)
            if conn is not None and owned:
                # a client that fails or is cancelled while holding a connection gives it back
                note_released(i, conn)
                try:
                    conn.close()
                except Exception:
                    pass
                pool.no_wait_release(conn)
            finished.add(i)

    tasks = {}
    for i, prog in enumerate(cfg['clients']):
        tasks[i] = loop.create_task(client(i, prog))
    for f in cfg.get('faults', []):
        if f[0] == 'cancel':
            def do_cancel(i=f[1]):
                # the statement quantifies over cancelling *waiting* clients: a client is cancelled only while it
                # waits to acquire or holds a connection, not in the middle of its own awaited pool.release()
                if not tasks[i].done() and i not in releasing:
                    tasks[i].cancel()
                    stats['cancels'] = stats.get('cancels', 0) + 1
                    stats['cancel_while_waiting'] = stats.get('cancel_while_waiting', 0) + (1 if i in waiting else 0)
            loop.add_external('cancel-c%d' % f[1], do_cancel)
        elif f[0] == 'connfail':
            def do_fail():
                net.connect_failures.append(ConnectionRefusedError(111, 'refused'))
            loop.add_external('next-connect-fails', do_fail)
        elif f[0] == 'peerclose':
            def do_close():
                for c in net.connections:
                    if not c.client_closed and not c.peer_closed:
                        c.feed_eof()
                        break
            loop.add_external('peer-closes-a-connection', do_close)

    def invariants(lp):
        for cid, hs in holders.items():
            if len(hs) > 1:
                problems.append(('connection-shared', {'holders': sorted(hs)}))
        contention = 0
        for key, hp in pool.host_pools.items():
            if len(hp.busy) > M:
                problems.append(('over-allocation', {'key': str(key), 'busy': len(hp.busy), 'limit': M}))
            if hp.ready & hp.busy:
                problems.append(('ready-and-busy-overlap', {'key': str(key)}))
            contention = max(contention, len(hp.busy) + sum(1 for w in waiting.values() if w == key))
        stats['max_contention'] = max(stats['max_contention'], contention)
        if problems:
            raise InvariantBroken()
    loop.on_step = invariants

    obs = {'cfg': cfg, 'problems': problems}
    try:
        try:
            loop.run_to_quiescence()
        except InvariantBroken:
            pass
        obs.update(quiescent=loop.quiescent, overrun=loop.overrun, steps=loop.steps, trace=list(loop.trace))
        if loop.quiescent and not problems:
            # --- quiescence checks
            for i, key in waiting.items():
                hp = pool.host_pools.get(key)
                state = {'client': i, 'pool_exists': hp is not None}
                if hp is not None:
                    state.update(ready=len(hp.ready), busy=len(hp.busy), lock_locked=hp._lock.locked())
                    if hp._lock.locked():
                        problems.append(('client-blocked-forever/pool-lock-never-released', state))
                    elif hp.ready or len(hp.busy) < M:
                        problems.append(('client-blocked-forever/free-slot-available', state))
                    else:
                        problems.append(('client-blocked-forever/all-slots-leaked', state))
                else:
                    problems.append(('client-blocked-forever/no-host-pool', state))
            # (a task cancelled before its first step never enters the client body: done() is the criterion)
            unfinished = [i for i in tasks if not tasks[i].done()]
            if not waiting and unfinished:
                problems.append(('client-never-finished', {'clients': unfinished,
                                                          'locked': pool._host_pools_lock.locked()}))
            if not waiting and not unfinished:
                # everything finished: drain deferred releases the way the next acquire would, then look
                async def settle():
                    await pool._process_no_wait_releases()
                    await pool.clean()
                loop.externals = []
                t = loop.create_task(settle())
                loop._stopping = False
                loop.run_to_quiescence()
                if not t.done():
                    problems.append(('clean-blocked-forever', {'locked': pool._host_pools_lock.locked(),
                                                               'host_locks': [hp._lock.locked() for hp in
                                                                              pool.host_pools.values()]}))
                else:
                    if t.exception() is not None:
                        problems.append(('clean-raised', {'error': repr(t.exception())}))
                    for key, hp in pool.host_pools.items():
                        if hp.busy:
                            problems.append(('busy-not-empty-after-all-finished', {'key': str(key),
                                                                                   'busy': len(hp.busy)}))
                        w = pool._host_pool_waiters.get(key)
                        if w:
                            problems.append(('waiter-count-not-zero', {'key': str(key), 'waiters': w}))
                        if hp.empty() and not w:
                            problems.append(('idle-host-entry-not-dropped', {'key': str(key)}))
        obs['outcome'] = dict(outcome)
        obs['stats'] = stats
    finally:
        net.uninstall()
        sched.close_loop(loop)
    return obs


class InvariantBroken(Exception):
    pass


def fault_class(cfg):
    fs = cfg.get('faults') or []
    return '+'.join(sorted(f[0] for f in fs)) or 'nofault'


def judge(obs, part, replay):
    cfg = obs['cfg']
    if obs.get('overrun'):
        part.inconclusive.append('step cap reached')
        return
    seen = set()
    for key, detail in obs['problems']:
        k = key + '/' + fault_class(cfg)
        if k in seen:
            continue
        seen.add(k)
        part.violation(k, {'detail': detail, 'cfg': cfg, 'trace': obs.get('trace', [])[-40:],
                           'outcome': obs.get('outcome')}, replay)
    if not obs['problems']:
        part.count('schedules_clean')


KINDS = ['plain', 'nowait', 'closefirst', 'ctx', 'base_session']


def gen_cfg(rng, small):
    n = rng.choice([2, 3] if small else [2, 3, 4, 6, 8, 12])
    hosts = rng.choice([1, 2] if small else [1, 2, 3])
    limit = rng.choice([1, 2] if small else [1, 2, 3, 4])
    clients = []
    for i in range(n):
        clients.append({'kind': rng.choice(KINDS), 'host': rng.randrange(hosts), 'connect': rng.random() < 0.5,
                        'raise_in_session': rng.random() < 0.1})
    faults = []
    r = rng.random()
    if r < 0.35:
        faults.append(['cancel', rng.randrange(n)])
    elif r < 0.5:
        faults.append(['connfail'])
    elif r < 0.6:
        faults.append(['peerclose'])
    if not small and rng.random() < 0.2:
        faults.append(['cancel', rng.randrange(n)])
    return {'clients': clients, 'hosts': hosts, 'limit': limit, 'faults': faults,
            'max_count': rng.choice([100, 100, 1]), 'dual_stack': rng.random() < 0.25}


def directed():
    out = []
    for limit in (1, 2):
        for kinds in (['plain', 'plain'], ['plain', 'nowait', 'plain'], ['ctx', 'base_session'],
                      ['closefirst', 'plain', 'plain']):
            base = {'clients': [{'kind': k, 'host': 0, 'connect': i == 0} for i, k in enumerate(kinds)],
                    'hosts': 1, 'limit': limit, 'faults': []}
            out.append(base)
            out.append(dict(base, faults=[['cancel', len(kinds) - 1]]))
            out.append(dict(base, faults=[['connfail']]))
    out.append({'clients': [{'kind': 'plain', 'host': 0, 'connect': True}, {'kind': 'nowait', 'host': 0, 'connect': True}],
                'hosts': 1, 'limit': 1, 'faults': [['connfail']], 'dual_stack': True})
    out.append({'clients': [{'kind': 'base_session', 'host': 0, 'connect': True}, {'kind': 'plain', 'host': 0, 'connect': True}],
                'hosts': 1, 'limit': 2, 'faults': [['cancel', 0]], 'dual_stack': True})
    out.append({'clients': [{'kind': 'plain', 'host': 0, 'connect': True}, {'kind': 'plain', 'host': 1, 'connect': True},
                            {'kind': 'plain', 'host': 0, 'connect': False}], 'hosts': 2, 'limit': 1,
                'faults': [['peerclose']]})
    return out


def worker(job):
    import compat
    compat.install()
    part = common.Part()
    if 'replay' in job and 'ops' in job['replay']:
        import logging
        import warnings
        logging.disable(logging.CRITICAL)
        warnings.simplefilter('ignore')
        from checks import c12b_clients
        c12b_clients.run_case(job['replay'], part)
        return part.dump()
    if 'replay' in job:
        rp = job['replay']
        obs = run_one(rp['cfg'], sched.ReplayChooser(rp['vector']))
        judge(obs, part, rp)
        part.evaluations += 1
        part.sample({'cfg': rp['cfg'], 'trace': obs.get('trace'), 'problems': obs['problems'],
                     'outcome': obs.get('outcome')})
        return part.dump()
    rng = random.Random(job['seed'])
    schedules = set()
    for cfg in job['dfs_cfgs']:
        last = {}

        def run(chooser, cfg=cfg):
            last['obs'] = run_one(cfg, chooser)
        st = None
        runs = 0
        for chooser, st in sched.dfs_vectors(run, job['dfs_runs'], job['dfs_depth']):
            runs += 1
            obs = last['obs']
            judge(obs, part, {'cfg': cfg, 'vector': chooser.vector})
            part.evaluations += 1
            key = common.jhash([cfg, chooser.vector])
            schedules.add(key)
            if obs.get('stats', {}).get('max_contention', 0) >= 2:
                part.nontrivial_case(key)
        part.count('dfs_configs')
        part.count('dfs_runs', runs)
        if st and st['exhausted'] and not st['truncated_depth']:
            part.count('dfs_configs_exhausted')
    for n in range(job['n_random']):
        cfg = gen_cfg(rng, small=rng.random() < 0.3)
        chooser = sched.RandomChooser(rng.randrange(1 << 30), ready_bias=rng.choice([0.2, 0.5, 0.8]))
        obs = run_one(cfg, chooser)
        judge(obs, part, {'cfg': cfg, 'vector': chooser.vector})
        part.evaluations += 1
        part.count('random_runs')
        key = common.jhash([cfg, chooser.vector])
        schedules.add(key)
        if obs.get('stats', {}).get('max_contention', 0) >= 2:
            part.nontrivial_case(key)
        part.count('acquisitions_observed', obs.get('stats', {}).get('acquired', 0))
        part.count('cancellations_delivered', obs.get('stats', {}).get('cancels', 0))
        part.count('cancellations_while_waiting_in_acquire', obs.get('stats', {}).get('cancel_while_waiting', 0))
        part.count('faults_' + fault_class(cfg))
        if cfg.get('dual_stack'):
            part.count('dual_stack_runs')
        if n % 97 == 0:
            part.sample({'cfg': cfg, 'trace': obs.get('trace', [])[:30], 'outcome': obs.get('outcome')})
    part.count('distinct_schedules', len(schedules))
    # monitor B: wpull's own clients (HTTP / web sessions, robots.txt checker; direct, relaying and tunnelling proxy pools)
    # against hostile peers; the pool must be quiescent when they have finished
    if job.get('n_clients'):
        import logging
        import warnings
        logging.disable(logging.CRITICAL)
        warnings.simplefilter('ignore')
        from checks import c12b_clients
        for n in range(job['n_clients']):
            c12b_clients.run_case(c12b_clients.gen_case(rng), part)
    return part.dump()


def main():
    check = common.Check('C12')
    check.rule = ('real ConnectionPool on the controlled scheduler: N clients (2-12; kinds acquire/release, no_wait_release, '
                  'close-before-release, session() context manager, BaseSession) x H host keys (1-3) x per-host limit M (1-4); '
                  'fault branches: cancel a client at any step, next connect fails, peer closes a connection; DFS over all '
                  'choice vectors for directed small configurations and random schedules for generated ones. '
                  'distinct_nontrivial = distinct (config, choice vector) in which >= 2 clients contended for one host key. '
                  'Monitor B: sequences of 1-8 fetches by wpull\'s own clients (HTTP session, web session with redirects and '
                  'login, robots.txt checker) sharing a direct / relaying-proxy / tunnelling-proxy pool with per-host limit '
                  '1-6, against peers that answer, send garbage, reset, close early, refuse or time out the connect, hang '
                  'until cancelled; quiescence + probe fetch afterwards')
    check.assumptions = ['ready callbacks run FIFO as asyncio documents; client progress, connect completion and faults are '
                         'external events ordered by the scheduler',
                         'a client that is cancelled or fails while holding a connection closes it and hands it back '
                         '(no_wait_release), as wpull sessions do']
    target = 'checks.c12_pool:worker'
    if check.args.replay:
        with open(check.args.replay) as f:
            rp = json.load(f)
        res = par.run_jobs(target, [{'seed': 0, 'replay': rp['replay']}], 1, timeout=120)
    else:
        nj = check.jobs
        cfgs = directed()
        dfs_runs = 100000 if check.thorough else 6000
        n_random = int((2000000 if check.thorough else 64000) * check.scale)
        jobs = [{'seed': check.seed * 1000003 + i, 'dfs_cfgs': cfgs[i::nj], 'dfs_runs': dfs_runs,
                 'dfs_depth': 60 if check.thorough else 30, 'n_random': n_random // nj,
                 'n_clients': int((40000 if check.thorough else 1600) * check.scale) // nj} for i in range(nj)]
        res = par.run_jobs(target, jobs, check.jobs, timeout=7200 if check.thorough else 900)
    for r in res:
        if '_error' in r:
            check.note_inconclusive('worker: ' + r['_error'] + ' ' + r.get('_stderr', '')[-400:])
        else:
            check.merge(r)
    check.finish(required_counters=() if check.args.replay else ('schedules_clean', 'dfs_runs', 'random_runs',
                                                                 'acquisitions_observed', 'real_client_operations',
                                                                 'real_client_sequences_left_pool_quiescent',
                                                                 'probe_fetches_served'))


if __name__ == '__main__':
    main()
