'''C01 - recursive crawl fetches every in-scope reachable URL exactly once.

End-to-end monitor: the real application crawls a generated site served by the harness loopback
server (request log = one entry per request line).  An offline checker over the request log and the
URL-table rows decides exactly-once, fixpoint completeness (trace-based, with the recorded levels),
the a-priori closure where it is order independent, and termination in final states.
'''
import json
import os
import random
import shutil
import tempfile

from harness import common, par, refscope, sitegen


def gen_options(rng):
    level = rng.choice([0, 0, 1, 2, 3])
    opts = {'recursive': True, 'level': level, 'page_requisites': rng.random() < 0.6,
            'page_requisites_level': rng.choice([5, 5, 1, 2]), 'no_parent': rng.random() < 0.3,
            'concurrent': rng.choice([1, 1, 2, 3, 4, 8]), 'accept_regex': None, 'reject_regex': None,
            'tries': 20, 'span_hosts_allow': []}
    if opts['concurrent'] > 1:
        # --concurrent is parsed but not handed to the pipelines in this tree: half of the concurrent cases set the
        # concurrency the way a plug-in does, so that several items really are in flight (8 > the 6 connections per host)
        opts['plugin_concurrency'] = rng.random() < 0.6
        # a server that closes the connection after every answer: every check-in returns a dead connection
        opts['server_closes'] = rng.random() < 0.4
    r = rng.random()
    if r < 0.15:
        opts['reject_regex'] = r'/d2/'
    elif r < 0.25:
        opts['accept_regex'] = r'(/d1/|/p\d|\.png|\.css|/r\d|landing)'
    return opts


def argv_for(opts, start, db_path, prefix):
    argv = [start, '-r', '--level', str(opts['level']) if opts['level'] else 'inf', '--no-robots',
            '--database', db_path, '-P', prefix, '--concurrent', str(opts['concurrent']), '--delete-after',
            '--page-requisites-level', str(opts['page_requisites_level']), '--quiet', '--waitretry', '0',
            '--tries', str(opts['tries'])]
    if opts['page_requisites']:
        argv.append('--page-requisites')
    if opts['no_parent']:
        argv.append('--no-parent')
    if opts['accept_regex']:
        argv += ['--accept-regex', opts['accept_regex']]
    if opts['reject_regex']:
        argv += ['--reject-regex', opts['reject_regex']]
    return argv


def run_crawl(site, opts, delay_seed, max_delay=0.004):
    from harness import servers, crawl
    addrs, port = servers.allocate_addresses(1)
    handler = sitegen.make_handler(site)
    if opts.get('server_closes'):
        inner = handler

        def handler(req):
            resp = inner(req)
            if isinstance(resp, dict) and 'raw' not in resp:
                resp = dict(resp, close=True, headers=list(resp.get('headers') or []) + [('Connection', 'close')])
            return resp
    srv = servers.Server(handler, addrs, port, delay_seed=delay_seed,
                         max_delay=max_delay if opts['concurrent'] > 1 else 0.0).start()
    tmp = tempfile.mkdtemp(prefix='vc01')
    try:
        db = os.path.join(tmp, 'crawl.db')
        res = crawl.run_app(argv_for(opts, site.start, db, tmp), {site.host: addrs[0]},
                            pipeline_concurrency=opts['concurrent'] if opts.get('plugin_concurrency') else None,
                            # a crawl in which no request arrives for 20 s although rows are still unfinished hangs
                            stall_watch=(lambda: len(srv.log.snapshot()), 20) if opts.get('plugin_concurrency') else None)
        rows = crawl.read_table(db) if os.path.exists(db) else []
        log = srv.log.snapshot()
    finally:
        srv.stop()
        shutil.rmtree(tmp, ignore_errors=True)
    return res, rows, log


def canon_request(entry):
    host = entry['host'].lower()
    if host.endswith(':80'):
        host = host[:-3]
    return 'http://' + host + entry['target']


def derived_record(row, link):
    inline = link['kind'] in sitegen.INLINE_KINDS
    return {'level': row['level'] + 1,
            'inline_level': ((row['inline_level'] or 0) + 1) if inline else None,
            'parent_url': row['url'], 'root_url': row['root'] or row['url'], 'try_count': 0}


def judge(site, opts, res, rows, log, part, replay):
    cls = 'conc{}'.format('1' if opts['concurrent'] == 1 else 'N')
    if res['exit_status'] != 0 or res['crashed']:
        part.violation('crawl-did-not-exit-cleanly/' + cls, {'exit': res['exit_status'], 'exception': res['exception'],
                                                              'stalled': res.get('stalled'), 'pool_state': res.get('pool_state'),
                                                              'log': res['log'][-800:]}, replay)
        return
    requested = {}
    optional_seen = {}
    for e in log:
        u = canon_request(e)
        if u in site.optional:
            # the URL written in a <base> element: requesting it is neither required nor forbidden - but at most once
            optional_seen[u] = optional_seen.get(u, 0) + 1
            continue
        requested.setdefault(u, []).append(e['seq'])
    for u, n in optional_seen.items():
        if n > 1:
            part.violation('requested-more-than-once/base-element-url/' + cls, {'url': u, 'times': n}, replay)
    part.count('base_element_urls_requested', len(optional_seen))
    log = [e for e in log if canon_request(e) not in site.optional]
    rows = [r for r in rows if r['url'] not in site.optional]
    rowmap = {}
    for r in rows:
        if r['url'] in rowmap:
            part.violation('url-stored-twice', {'url': r['url']}, replay)
        rowmap[r['url']] = r
    start_hosts = {site.host}
    ropts = dict(opts)
    # --- termination / final states
    for r in rows:
        if r['status'] not in ('done', 'skipped'):
            part.violation('row-not-final/{}/{}'.format(r['status'], cls), {'row': r}, replay)
    if site.start not in rowmap:
        part.violation('start-url-not-a-row', {'start': site.start}, replay)
        return
    # --- exactly once
    redirect_targets = {p.location[1]: p.url for p in site.pages.values() if p.kind == 'redirect'}
    for url, seqs in requested.items():
        if len(seqs) > 1:
            spellings = sorted(set(l['spelling'] for p in site.pages.values() for l in p.links if l['target'] == url))
            kind = 'redirect-target' if url in redirect_targets else 'page'
            linked_directly = any(l['target'] == url for p in site.pages.values() for l in p.links)
            if kind == 'redirect-target' and linked_directly and len(seqs) == 2 and url in rowmap and \
                    redirect_targets[url] in requested:
                # mechanism: a redirect hop is fetched inside the redirecting item's session and is not recorded in
                # the URL table, so the same URL is fetched again when it is also an item of its own
                part.violation('redirect-target-also-linked-fetched-as-hop-and-as-item',
                               {'url': url, 'redirected_from': redirect_targets[url]}, replay)
                continue
            part.violation('requested-more-than-once/{}/{}'.format(kind, cls),
                           {'url': url, 'times': len(seqs), 'link_spellings': spellings}, replay)
        if url not in site.pages:
            part.violation('requested-url-not-on-site', {'url': url}, replay)
    part.count('requests_observed', len(log))
    # --- every request is a row or a hop of a requested redirect row
    for url in requested:
        if url not in rowmap:
            src = redirect_targets.get(url)
            if not (src and src in requested and src in rowmap):
                part.violation('request-without-row', {'url': url}, replay)
    # --- fixpoint completeness on the recorded trace
    for url, row in rowmap.items():
        fetched = url in requested
        page = site.pages.get(url)
        ok, rules = refscope.verdict(url, {'level': row['level'], 'inline_level': row['inline_level'],
                                           'parent_url': row['parent'], 'root_url': row['root'], 'try_count': 0},
                                     ropts, start_hosts)
        if ok and not fetched:
            part.violation('in-scope-row-not-requested/' + cls, {'row': row, 'rules': rules}, replay)
        elif fetched and not ok:
            part.violation('out-of-scope-row-requested/' + cls, {'row': row, 'rules': rules}, replay)
        else:
            part.count('rows_consistent_with_scope')
        if not fetched or page is None:
            continue
        pages_to_scan = [page]
        if page.kind == 'redirect' and page.location[1] in site.pages and page.location[1] in requested:
            pages_to_scan = [site.pages[page.location[1]]]
        for pg in pages_to_scan:
            for link in pg.links:
                rec = derived_record(row, link)
                acc, lrules = refscope.verdict(link['target'], rec, ropts, start_hosts)
                part.count('served_links_checked')
                if acc and link['target'] not in rowmap:
                    part.violation('in-scope-link-not-recorded/{}/{}/{}'.format(link['spelling'], link['kind'], cls),
                                   {'parent': url, 'link': link, 'derived_record': rec}, replay)
    # --- recorded link metadata must describe a real discovery: root = the start URL, parent = a fetched page that
    #     serves a link to this URL, level = parent's level + 1, inline level = what the kind of that link implies
    for url, row in rowmap.items():
        if url == site.start:
            if row['root'] != url or row['level'] != 0 or row['inline_level']:
                part.violation('row-metadata-wrong/start-url', {'row': row}, replay)
            continue
        problems = sitegen.row_metadata_problems(url, row, rowmap, site.pages, site.start)
        if problems:
            part.violation('row-metadata-wrong/' + '+'.join(problems), {'row': row, 'start': site.start}, replay)
        else:
            part.count('row_metadata_consistent')
    # --- a-priori closure where it is order independent (level unbounded)
    if not opts['level']:
        expected = closure(site, ropts, start_hosts)
        got = set(requested)
        if got != expected:
            part.violation('closure-mismatch/{}/{}'.format('missing' if expected - got else 'extra', cls),
                           {'missing': sorted(expected - got)[:5], 'extra': sorted(got - expected)[:5]}, replay)
        else:
            part.count('apriori_closure_confirmed')
    part.count('crawls_judged')


def closure(site, opts, start_hosts):
    '''Requested set of an ideal crawler when no depth limit binds (record = first BFS discovery; only the
    order-independent parts of the record matter here).'''
    start = site.start
    seen = {start: {'level': 0, 'inline_level': None, 'parent_url': start, 'root_url': start, 'try_count': 0}}
    queue = [start]
    requested = set()
    while queue:
        url = queue.pop(0)
        rec = seen[url]
        ok, _ = refscope.verdict(url, rec, opts, start_hosts)
        if not ok:
            continue
        requested.add(url)
        page = site.pages.get(url)
        if page is None:
            continue
        if page.kind == 'redirect':
            # the hop is judged with the record of the redirecting URL (only the span-hosts rule is waived for redirects)
            if not refscope.verdict(page.location[1], rec, opts, start_hosts, is_redirect=True)[0]:
                continue
            requested.add(page.location[1])
            page = site.pages.get(page.location[1])
            if page is None:
                continue
        for link in page.links:
            inline = link['kind'] in sitegen.INLINE_KINDS
            child = {'level': rec['level'] + 1, 'inline_level': ((rec['inline_level'] or 0) + 1) if inline else None,
                     'parent_url': url, 'root_url': rec['root_url'], 'try_count': 0}
            # pre-filter as the crawler applies it (scope evaluated with the child record)
            if link['target'] not in seen and refscope.verdict(link['target'], child, opts, start_hosts)[0]:
                seen[link['target']] = child
                queue.append(link['target'])
    return requested


def nontrivial_key(site, opts):
    return common.jhash([sorted((u, sorted((l['href'], l['kind']) for l in p.links)) for u, p in site.pages.items()),
                         sorted((k, str(v)) for k, v in opts.items())])


def build_site(case):
    rng = random.Random(case['site_seed'])
    site = sitegen.generate(rng, n_pages=case.get('n_pages'), redirects=case.get('redirects', True), junk_links=True,
                            link_redirect_targets=case.get('link_redirect_targets', False), frames=True, bases=True)
    if case.get('hub_links'):
        # one page with very many links (around and beyond the 1000-link batches in which a page's links are stored),
        # each to a leaf that nothing else links to
        hub = site.add(sitegen.Page('http://' + site.host + '/hub.html', 'html'))
        sitegen.add_link(rng, site, site.start, hub.url, 'a', ['abs-path'])
        for k in range(case['hub_links']):
            leaf = site.add(sitegen.Page('http://%s/h/leaf%d.html' % (site.host, k), 'leaf'))
            sitegen.add_link(rng, site, hub.url, leaf.url, 'a', ['abs-path', 'absolute', 'relative'])
        site.features.add('hub-page')
    if case.get('many_redirects'):
        # more redirecting URLs in one crawl than any per-visit limit (--max-redirect is 20): each is a single hop to a
        # landing page of its own, all linked from one page
        hub = site.add(sitegen.Page('http://' + site.host + '/moved.html', 'html'))
        sitegen.add_link(rng, site, site.start, hub.url, 'a', ['abs-path'])
        for k in range(case['many_redirects']):
            r = site.add(sitegen.Page('http://%s/mv/%d' % (site.host, k), 'redirect'))
            r.status = rng.choice([301, 302, 303, 307, 308])
            target = site.add(sitegen.Page('http://%s/art/%d.html' % (site.host, k), 'leaf'))
            r.location = ('/art/%d.html' % k, target.url)
            sitegen.add_link(rng, site, hub.url, r.url, 'a', ['abs-path', 'absolute', 'relative'])
        site.features.add('many-redirects')
    if case.get('cookie_gate'):
        # a section behind a "cookie bounce": /enter redirects to /members/ and sets a session cookie with the redirect;
        # /members/ sends a client that comes without the cookie back to /enter
        gate = site.add(sitegen.Page('http://' + site.host + '/enter', 'redirect'))
        gate.status = rng.choice([302, 303, 307])
        members = site.add(sitegen.Page('http://' + site.host + '/members/', 'html'))
        gate.location = ('/members/', members.url)
        gate.set_cookie = 'session=s%d' % rng.randrange(10 ** 6)
        members.needs_cookie = (gate.set_cookie, '/enter')
        for k in range(2):
            inner = site.add(sitegen.Page('http://%s/members/page%d.html' % (site.host, k), 'leaf'))
            inner.needs_cookie = members.needs_cookie
            sitegen.add_link(rng, site, members.url, inner.url, 'a', ['relative', 'abs-path'])
        sitegen.add_link(rng, site, site.start, gate.url, 'a', ['abs-path'])
        site.features.add('cookie-gate')
    if case.get('straddle'):
        # a long UTF-8 page in which a 4-byte character lies across byte 131072; its links are spelled with literal non-ASCII
        # characters, so a wrong guess of the encoding queues the wrong URLs
        big = site.add(sitegen.Page('http://' + site.host + '/long-page.html', 'html'))
        big.straddle = case['straddle']
        for name in ('caf\u00e9', '\u65e5\u672c', 'stra\u00dfe'):
            import urllib.parse
            leaf = site.add(sitegen.Page('http://%s/%s.html' % (site.host, urllib.parse.quote(name)), 'leaf'))
            big.links.append({'href': '/%s.html' % name, 'kind': 'a', 'target': leaf.url, 'spelling': 'literal-non-ascii'})
        sitegen.add_link(rng, site, site.start, big.url, 'a', ['abs-path'])
        site.features.add('long-utf8-page')
    if case.get('robots_meta'):
        # robots meta elements on some pages: the crawls run with --no-robots, which makes them plain pages
        mrng = random.Random(case['site_seed'] ^ 0x5EED)
        for url in sorted(site.pages):
            page = site.pages[url]
            if page.kind == 'html' and mrng.random() < 0.35:
                page.extra_head += '<meta name="%s" content="%s">' % (mrng.choice(['robots', 'ROBOTS', 'Robots']),
                                                                     mrng.choice(['nofollow', 'noindex, nofollow', 'none', 'NOFOLLOW']))
                site.features.add('robots-meta-with-robots-off')
    return site


def worker(job):
    import compat
    compat.install()
    import logging
    logging.disable(logging.CRITICAL)
    part = common.Part()
    if 'replay' in job and job['replay'].get('ftp_complete'):
        from checks import c01b_ftp
        c01b_ftp.run_case(job['replay'], part)
        return part.dump()
    if job.get('ftp_cases'):
        from checks import c01b_ftp
        for case in job['ftp_cases']:
            c01b_ftp.run_case(case, part)
    cases = [job['replay']] if 'replay' in job else job['cases']
    orders = set()
    for case in cases:
        site = build_site(case)
        opts = case['opts']
        res, rows, log = run_crawl(site, opts, case['delay_seed'], max_delay=case.get('max_delay', 0.004))
        part.evaluations += 1
        judge(site, opts, res, rows, log, part, case)
        feats = site.features
        if len(log) >= 5 and ('duplicate-link' in feats or any(f.startswith('spelling:') and f not in
                                                              ('spelling:absolute', 'spelling:abs-path') for f in feats)):
            part.nontrivial_case(nontrivial_key(site, opts) + str(opts['concurrent']))
        orders.add(common.jhash([canon_request(e) for e in log]))
        part.count('conc_%d' % opts['concurrent'])
        if opts.get('plugin_concurrency'):
            part.count('crawls_with_pipeline_concurrency_above_1')
            if opts.get('server_closes'):
                part.count('crawls_with_pipeline_concurrency_and_closing_server')
        if case.get('many_redirects'):
            part.count('crawls_with_more_than_20_redirecting_urls')
        if case.get('robots_meta'):
            part.count('crawls_over_pages_with_robots_meta_and_robots_off')
        if case.get('hub_links'):
            part.count('crawls_with_page_of_over_1000_links' if case['hub_links'] > 1000 else 'crawls_with_hub_page')
        if len(part.samples) < 2:
            part.sample({'site': site.describe(), 'opts': opts, 'requests': [canon_request(e) for e in log][:12],
                         'rows': len(rows)})
    part.count('distinct_request_orders', len(orders))
    return part.dump()


def main():
    check = common.Check('C01')
    check.rule = ('generated site graphs (3-40 pages; cycles, diamonds, self links, duplicate links, 10 spelling classes of one '
                  'canonical URL, same-host redirects 301-308, img/css/script requisites and css url()) x options (level inf/1/2/3, '
                  'page requisites and their depth, no-parent, accept/reject regex, concurrency 1-8) x seeded response delays; '
                  'distinct_nontrivial = distinct (site, option vector, concurrency) with a duplicate or non-trivially spelled '
                  'link and >= 5 requests')
    check.trusted_base += ['harness/servers.py request log', 'harness/refscope.py', 'harness/sitegen.py canonical identities']
    check.assumptions = ['no fetch fails in this workload; redirect targets are leaves that nothing else links to '
                         '(a redirect target that is also linked is its own scenario, see C01 notes in DESIGN.md)']
    target = 'checks.c01_crawl:worker'
    if check.args.replay:
        with open(check.args.replay) as f:
            rp = json.load(f)
        res = par.run_jobs(target, [{'replay': rp['replay'], '_env': {'PYTHONHASHSEED': rp['replay'].get('hashseed', 0)}}], 1,
                           timeout=300)
    else:
        rng = random.Random(check.seed)
        total = int((3000 if check.thorough else 160) * check.scale)
        cases = []
        for i in range(total):
            site_seed = rng.randrange(1 << 30)
            opts = gen_options(rng)
            cases.append({'site_seed': site_seed, 'opts': opts, 'delay_seed': rng.randrange(1 << 30),
                          'n_pages': rng.choice([3, 5, 8, 12, 20, 40]), 'link_redirect_targets': i % 10 == 9,
                          'robots_meta': i % 3 == 1})
            if i % 8 == 3:
                cases[-1]['cookie_gate'] = True
            if i % 16 == 9:
                cases[-1]['straddle'] = rng.choice([1, 2, 3, 3])
            if i % 16 == 5:
                cases[-1]['many_redirects'] = rng.choice([21, 25, 40, 64])
                cases[-1]['opts'] = dict(opts, level=0 if opts['level'] in (0, 1) else opts['level'], accept_regex=None, reject_regex=None, no_parent=False)
            if check.thorough and i % 10 == 0:
                # concurrency sweep on the same site
                for c in (1, 2, 3, 4, 6, 8):
                    cases.append({'site_seed': site_seed, 'opts': dict(opts, concurrent=c),
                                  'delay_seed': rng.randrange(1 << 30), 'n_pages': 12})
        for n in ([1001, 2003] if not check.thorough else [999, 1000, 1001, 1002, 1999, 2000, 2001, 2500, 3001, 4000]):
            hub_opts = dict(gen_options(rng), level=0, no_parent=False, accept_regex=None, reject_regex=None)
            cases.insert(rng.randrange(len(cases)), {'site_seed': rng.randrange(1 << 30), 'opts': hub_opts,
                                                     'delay_seed': rng.randrange(1 << 30), 'n_pages': 3, 'hub_links': n})
        # more items in flight than the pool allows connections to one host (6), against a server that closes after every
        # answer and takes its time: workers queue for a connection slot and every slot comes back as a dead connection
        for n in range(4 if not check.thorough else 40):
            busy_opts = dict(gen_options(rng), level=0, no_parent=False, accept_regex=None, reject_regex=None, concurrent=rng.choice([8, 8, 12, 7]),
                             plugin_concurrency=True, server_closes=n % 4 != 3)
            cases.insert(rng.randrange(len(cases)), {'site_seed': rng.randrange(1 << 30), 'opts': busy_opts, 'delay_seed': rng.randrange(1 << 30),
                                                     'n_pages': 40, 'max_delay': 0.03})
        nj = check.jobs * (4 if check.thorough else 1)
        # each job runs under its own hash seed: the scraper hands over the links of a page as a set, so their order (which
        # role of a URL is seen first, which link is stored first) varies with it
        jobs = []
        from checks import c01b_ftp
        ftp_cases = [c01b_ftp.gen_case(rng) for _ in range(int((600 if check.thorough else 48) * check.scale))]
        for i in range(nj):
            if cases[i::nj]:
                jobs.append({'cases': [dict(c, hashseed=i) for c in cases[i::nj]], '_env': {'PYTHONHASHSEED': i},
                             'ftp_cases': ftp_cases[i::nj]})
        res = par.run_jobs(target, jobs, check.jobs, timeout=7200 if check.thorough else 900)
    for r in res:
        if '_error' in r:
            check.note_inconclusive('worker: ' + r['_error'] + ' ' + r.get('_stderr', '')[-400:])
        else:
            check.merge(r)
    check.finish(required_counters=() if check.args.replay else (
        'crawls_judged', 'served_links_checked', 'rows_consistent_with_scope', 'apriori_closure_confirmed'))


if __name__ == '__main__':
    main()
