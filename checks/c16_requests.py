'''C16 - every HTTP request on the wire matches the URL being fetched.

Monitor: the real WebClient / WebSession / Client / Session / Stream write their requests to scripted
in-memory peers (one address per host); every captured request is parsed by a strict request grammar and
compared with the URL of the hop it belongs to; credential and cookie provenance is tracked per host.
'''
import asyncio
import io
import json
import random
import re

from harness import common, par, netsim

HOST_IPS = {'a.test': '127.0.2.1', 'b.test': '127.0.2.2', 'c.test': '127.0.2.3', 'xn--bcher-kva.test': '127.0.2.4',
            'bücher.test': '127.0.2.4', '127.0.2.9': '127.0.2.9', '[::1]': '::1', '::1': '::1'}
REDIRECT_CODES = [301, 302, 303, 307, 308]
REQ_LINE = re.compile(br'^([A-Z]+) ([!-~]+) (HTTP/1\.[01])\r\n')
FIELD = re.compile(br"^([!#$%&'*+\-.^_`|~0-9A-Za-z]+):[ \t]*([^\r\n\x00]*)\r\n")


class Shared(object):
    def __init__(self):
        self.requests = []      # (address, port, raw bytes)


class LoggingPeer(netsim.HTTPScriptPeer):
    def __init__(self, shared, addr, port):
        super().__init__([])
        self.shared = shared
        self.addr = addr
        self.port = port

    def auto_response(self, conn, raw):
        if raw.startswith(b'CONNECT '):
            # a proxy grants every tunnel; what follows on this connection is the (simulated) TLS stream to the origin
            return {'pieces': [b'HTTP/1.1 200 Connection established\r\n\r\n'], 'then': 'keep'}
        return None

    def data_received(self, conn, data):
        before = len(self.requests)
        super().data_received(conn, data)
        for cid, raw in self.requests[before:]:
            self.shared.requests.append((self.addr, self.port, raw, cid))


def parse_request(raw):
    '''Strict parse; returns (method, target, version, fields, problems).'''
    problems = []
    m = REQ_LINE.match(raw)
    if not m:
        return None, None, None, [], ['request line malformed: %r' % raw[:120]]
    pos = m.end()
    fields = []
    while True:
        if raw[pos:pos + 2] == b'\r\n':
            pos += 2
            break
        fm = FIELD.match(raw[pos:])
        if not fm:
            problems.append('header line malformed: %r' % raw[pos:pos + 120])
            break
        fields.append((fm.group(1).decode('latin-1').lower(), fm.group(2).decode('latin-1').rstrip(' \t')))
        pos += fm.end()
    return m.group(1).decode(), m.group(2).decode('latin-1'), m.group(3).decode(), fields, problems


def host_of(url_info):
    return url_info.hostname_with_port


def gen_hop_url(rng, host=None, scheme='http'):
    # (ports that are the default of *another* scheme are not default for http and must appear in Host)
    host = host or rng.choice(['a.test', 'a.test', 'b.test', 'c.test', 'a.test:8080', 'b.test:81', 'bücher.test', '127.0.2.9',
                               '[::1]', '[::1]:8080', 'a.test:443', 'c.test:21', 'b.test:70', '[::1]:443', 'a.test:80',
                               'b.test:8443'])
    if rng.random() < 0.02:
        # compatibility characters that IDNA mapping folds into '/', '?', '#': not host names (the URL must be refused)
        host = rng.choice(['a.test\uff0f.b.test', 'a\uff1fb.test', 'c.test\uff03x', 'a.test\u2100b.test:81'])
    path = '/' + '/'.join(rng.choice(['x', 'y y', 'é', '%0D%0A', 'a%20b', '%00', 'HTTP/1.1', 'q?', ';p', 'a:b', '~u', '%7e',
                                      '"q"', '<s>', 'x\\y', '..', '.', 'very' * 30])
                          for _ in range(rng.randrange(0, 4)))
    query = rng.choice(['', '', 'a=1', 'q=x y', 'q=%0d%0aInjected: 1', 'r=http://b.test/', 'é=ü', 'a=b&c=d#frag', 'x=%20HTTP/1.1'])
    userinfo = ''
    if rng.random() < 0.06:
        # a hop (e.g. a redirect target) that carries user info of its own, also one that spells another authority once its
        # escapes are decoded
        userinfo = rng.choice(['user:pw@', 'b.test:p%2Fx@', 'c.test:a%40b@', 'b.test:x%5Cy%3Fz%23w@', 'u%2F:p@'])
    return scheme + '://' + userinfo + host + path + ('?' + query if query else '')


# what a hostile server may put after 'sidN=' (the Set-Cookie line itself is one header line)
COOKIE_VALUES = [None, None, None, 'k' * 600, 'w-' * 520, 'word ' * 230, 'a b', 'a\tb', 'x"y', '"q q"', '\xe9', 'a,b', '%0D%0AInjected: 1', 'a\x0bInjected: 1', 'a\x0cb', 'a\x7fb', '=', '',
                 'a\rInjected: 1', 'v; Injected', 'x' * 5000, 'a\x85b', 'a\x1cb']


def gen_case(rng):
    n_hops = rng.choice([1, 1, 2, 3, 4, 6])
    hops = []
    proxy = rng.choice([False, False, False, False, False, True, True, 'tls', 'tunnel', 'tunnel', 'auth', 'auth'])
    for i in range(n_hops):
        # 'tunnel': https URLs through a proxy (CONNECT, then TLS inside the tunnel)
        hops.append({'url': gen_hop_url(rng, scheme='https' if proxy == 'tunnel' else 'http'), 'code': rng.choice(REDIRECT_CODES), 'set_cookie': rng.random() < 0.4,
                     'location_style': rng.choice(['absolute', 'absolute', 'relative-if-same-host', 'raw']),
                     'cookie_value': rng.choice(COOKIE_VALUES)})
    case = {'hops': hops, 'credentials': None, 'referer': rng.choice([None, 'http://a.test/from page', 'https://s.test/secret',
                                                                     # field values of a kilobyte and more (a long parent URL)
                                                                     'http://a.test/catalogue/section-' + '-'.join('part%d' % i for i in range(260)),
                                                                     'http://a.test/' + 'x' * 1020, 'http://a.test/?q=' + 'a b ' * 400]),
            'method': 'GET', 'challenge': False, 'preset_cookie': rng.random() < 0.5, 'proxy': proxy}
    for h in hops:
        m = re.match(r'^\w+://(b\.test|c\.test):', h['url'])
        if m:
            case['other_host_cookie'] = m.group(1)
    if rng.random() < 0.35:
        case['credentials'] = rng.choice([['user', 'pw'], ['us er', 'p:w'], ['ü', 'pä'], ['a\r\nX: 1', 'b'],
                                          # user info that looks like another authority once its escapes are decoded
                                          ['user', 'p' * 60], ['u' * 30, 'token-' + 'x' * 70],
                                          ['b.test', 'p/x'], ['c.test', 'a@b'], ['b.test', 'x\\y?z#w'], ['c.test:80', '/@/']])
        if case['credentials'][0].split(':')[0] in ('b.test', 'c.test'):
            case['other_host_cookie'] = case['credentials'][0].split(':')[0]
        # 'url': credentials inside the first URL (sent at once); 'login': configured user/password (as --http-user),
        # sent only after a 401 challenge
        case['credential_mode'] = rng.choice(['url', 'login'])
        case['challenge'] = case['credential_mode'] == 'login'
        if case['credential_mode'] == 'url' and n_hops >= 2 and rng.random() < 0.4:
            # a later hop (possibly another host) answers its first request with a challenge of its own
            case['late_challenge'] = rng.randrange(1, n_hops)
    return case


PROXY_EXEMPT = ('b.test',)      # with proxy mode 'auth' the pool's host filter sends these hosts directly


def via_proxy(case, info):
    if not case.get('proxy'):
        return False
    return not (case['proxy'] == 'auth' and info.hostname in PROXY_EXEMPT)


def run_case(case, part):
    from wpull.network.pool import ConnectionPool
    from wpull.protocol.http.client import Client
    from wpull.protocol.http.web import WebClient
    from wpull.protocol.http.request import Request
    from wpull.cookiewrapper import CookieJarWrapper
    from wpull.cookie import DeFactoCookiePolicy
    from wpull.url import URLInfo
    from http.cookiejar import CookieJar
    import urllib.parse
    replay = case
    hops = case['hops']
    infos = []
    for h in hops:
        try:
            infos.append(URLInfo.parse(h['url']))
        except ValueError:
            part.count('cases_with_unparseable_url')
            return
    first = hops[0]['url']
    if case['credentials'] and case.get('credential_mode', 'url') == 'url':
        u, p = case['credentials']
        first = first.replace('://', '://{}:{}@'.format(urllib.parse.quote(u, safe=''), urllib.parse.quote(p, safe='')), 1)
        try:
            infos[0] = URLInfo.parse(first)
        except ValueError:
            part.count('cases_with_unparseable_url')
            return
    for info in infos:
        # every generated host is one of the known names / literals or is not a host name at all (and must have been refused)
        if HOST_IPS.get(info.hostname, HOST_IPS.get('[' + info.hostname + ']')) is None:
            part.violation('url-accepted-although-its-host-is-not-a-host-name', {'url': info.url, 'hostname': info.hostname,
                                                                              'hops': [h['url'] for h in hops]}, replay)
            part.evaluations += 1
            return
    shared = Shared()
    outcome = {}

    async def main():
        net = netsim.Net().install()
        try:
            peers = {}

            def peer_for(info):
                if via_proxy(case, info):
                    key = ('127.0.2.100', 3128)
                    if key not in peers:
                        peers[key] = LoggingPeer(shared, key[0], key[1])
                        net.add_peer(key[0], key[1], peers[key])
                    return peers[key]
                ip = HOST_IPS.get(info.hostname, HOST_IPS.get('[' + info.hostname + ']'))
                key = (ip, info.port)
                if key not in peers:
                    peers[key] = LoggingPeer(shared, ip, info.port)
                    net.add_peer(ip, info.port, peers[key])
                return peers[key]
            cookie_serial = 0
            expected = []      # per expected request: dict(info, kind)
            for i, (h, info) in enumerate(zip(hops, infos)):
                peer = peer_for(info)
                last = i == len(hops) - 1
                headers = [b'Content-Length: 0', b'Server: sim']
                if h['set_cookie']:
                    cookie_serial += 1
                    value = 'v%d-from-%s' % (cookie_serial, info.hostname.replace(':', '_'))
                    if h.get('cookie_value') is not None:
                        value = h['cookie_value']
                    headers.append(('Set-Cookie: sid%d=%s; Path=/' % (cookie_serial, value)).encode('latin-1'))
                if case.get('late_challenge') == i:
                    peer.responses.append({'pieces': [b'HTTP/1.1 401 Unauthorized\r\nWWW-Authenticate: Basic realm="later"\r\n'
                                                      b'Content-Length: 0\r\n\r\n'], 'then': 'keep'})
                    expected.append({'info': info, 'kind': 'challenge'})
                if i == 0 and case['challenge'] and case['credentials']:
                    peer.responses.append({'pieces': [b'HTTP/1.1 401 Unauthorized\r\nWWW-Authenticate: Basic realm="r"\r\n'
                                                      b'Content-Length: 0\r\n\r\n'], 'then': 'keep'})
                    expected.append({'info': info, 'kind': 'challenge'})
                if last:
                    status = b'HTTP/1.1 200 OK'
                else:
                    nxt = infos[i + 1]
                    status = ('HTTP/1.1 %d Redirect' % h['code']).encode()
                    if h['location_style'] == 'relative-if-same-host' and host_of(nxt) == host_of(info):
                        loc = nxt.path + ('?' + nxt.query if nxt.query else '')
                    elif h['location_style'] == 'raw' and '\\' not in hops[i + 1]['url']:
                        # the next hop as a careless server spells it: raw spaces, quotes, brackets, non-ASCII bytes
                        loc = hops[i + 1]['url']
                    else:
                        loc = nxt.url
                    headers.append(b'Location: ' + loc.encode('latin-1'))
                peer.responses.append({'pieces': [status + b'\r\n' + b'\r\n'.join(headers) + b'\r\n\r\n'], 'then': 'keep'})
                expected.append({'info': info, 'kind': 'hop', 'index': i})
            table = {}
            for name, ip in HOST_IPS.items():
                try:
                    table[URLInfo.parse('http://' + name + '/').hostname] = ip
                except ValueError:
                    pass
            if case.get('proxy'):
                from wpull.proxy.client import HTTPProxyConnectionPool
                # 'tls': the hop to the proxy itself is encrypted (--https-proxy); the proxy still relays, so it needs the
                # absolute URL exactly as a plain proxy does
                extra = {}
                if case['proxy'] == 'auth':
                    # an authenticating proxy, with some hosts exempt from it (--proxy-exclude-hostnames)
                    from wpull.proxy.hostfilter import HostFilter
                    extra = {'authentication': ('proxy-account', 'proxy-s3cret'), 'host_filter': HostFilter(reject_hostnames=list(PROXY_EXEMPT))}
                pool = HTTPProxyConnectionPool(('127.0.2.100', 3128), resolver=netsim.StaticResolver(table),
                                               proxy_ssl=case['proxy'] == 'tls', **extra)
            else:
                pool = ConnectionPool(resolver=netsim.StaticResolver(table))
            jar = CookieJar()
            jar.set_policy(DeFactoCookiePolicy(cookie_jar=jar))

            def request_factory(*a, **k):
                r = Request(*a, **k)
                r.fields['User-Agent'] = 'Wpull/verif'
                r.fields['Accept-Encoding'] = 'gzip, deflate'
                return r
            client = WebClient(http_client=Client(connection_pool=pool), request_factory=request_factory,
                               cookie_jar=CookieJarWrapper(jar))
            if case.get('other_host_cookie'):
                # a cookie that a different host (the one the user name spells) set on an earlier visit
                import http.cookiejar
                jar.set_cookie(http.cookiejar.Cookie(
                    0, 'othersid', 'of-' + case['other_host_cookie'], None, False, case['other_host_cookie'], False, False, '/', True,
                    False, None, False, None, None, {}))
            if case.get('preset_cookie'):
                # a cookie the first host set on an earlier visit
                import http.cookiejar
                jar.set_cookie(http.cookiejar.Cookie(
                    0, 'presid', 'earlier-visit', None, False, infos[0].hostname, False, False, '/', True, False, None,
                    False, None, None, {}))
            request = request_factory(first)
            if case['referer']:
                request.fields['Referer'] = case['referer']
            if case['credentials'] and case.get('credential_mode') == 'login':
                request.username, request.password = case['credentials']
            session = client.session(request)
            try:
                with session:
                    steps = 0
                    while not session.done() and steps < 20:
                        steps += 1
                        await session.start()
                        await session.download(file=io.BytesIO())
                outcome['error'] = None
            except Exception as e:
                outcome['error'] = type(e).__name__ + ': ' + str(e)[:200]
            outcome['expected'] = expected
            try:
                client.close()
            except Exception:
                pass
        finally:
            net.uninstall()
    netsim.run(main(), timeout=60)
    part.evaluations += 1
    if outcome.get('error'):
        part.count('sessions_ended_with_error')
    expected = outcome['expected']
    # tunnel requests (CONNECT) are judged on their own and taken out of the sequence that is aligned with the hops
    all_reqs = shared.requests
    reqs = []
    tunnel_of = {}      # connection id -> authority the tunnel was opened to
    for addr, port, raw, cid in all_reqs:
        if raw.startswith(b'CONNECT '):
            part.count('connect_requests_captured')
            m = re.match(br'^CONNECT ([!-~]+) HTTP/1\.[01]\r\n', raw)
            if case.get('proxy') != 'tunnel':
                part.violation('connect-request-without-tunnel-mode', {'raw': raw[:200]}, replay)
            elif not m:
                part.violation('request-not-well-formed/connect-line', {'raw': raw[:200]}, replay)
            else:
                tunnel_of[cid] = m.group(1).decode('latin-1')
                _, _, _, cfields, cproblems = parse_request(raw.replace(b'CONNECT ', b'GET ', 1))
                if cproblems:
                    part.violation('request-not-well-formed/connect-header', {'problem': cproblems[0], 'raw': raw[:200]}, replay)
            continue
        reqs.append((addr, port, raw, cid))
    codes = [h['code'] for h in hops[:-1]]
    repeat_chain = any(c in (307, 308) for c in codes)
    cls = 'replay-redirect' if repeat_chain else ('redirect' if codes else 'direct')
    if case.get('proxy'):
        cls = {'tls': 'tls-proxied-', 'tunnel': 'tunnelled-', 'auth': 'auth-proxied-'}.get(case['proxy'], 'proxied-') + cls
    part.nontrivial_case('{}/{}/{}/{}'.format(cls, len(hops), bool(case['credentials']), sorted(set(codes))))
    # which cookies / credentials each host may legitimately receive
    cookie_origin = {}
    for i, (h, info) in enumerate(zip(hops, infos)):
        pass
    seen_setcookie = {}
    cookie_serial = 0
    for i, (h, info) in enumerate(zip(hops, infos)):
        if h['set_cookie']:
            cookie_serial += 1
            seen_setcookie['sid%d' % cookie_serial] = info.hostname
    if case.get('preset_cookie'):
        seen_setcookie['presid'] = infos[0].hostname
    if case.get('other_host_cookie'):
        seen_setcookie['othersid'] = case['other_host_cookie']
    cred_host = host_of(infos[0]) if case['credentials'] else None
    own_userinfo_hosts = set(host_of(i) for i in infos if i.username or i.password)
    for k, (addr, port, raw, cid) in enumerate(reqs):
        part.count('requests_captured')
        if k >= len(expected):
            part.violation('more-requests-than-hops/' + cls, {'extra': raw[:200], 'hops': [h['url'] for h in hops]}, replay)
            break
        exp = expected[k]
        info = exp['info']
        method, target, version, fields, problems = parse_request(raw)
        if problems:
            part.violation('request-not-well-formed/' + classify_problem(problems[0]),
                           {'problem': problems[0], 'raw': raw[:300], 'url': info.url}, replay)
            continue
        want_target = info.path + ('?' + info.query if info.query else '')
        if case.get('proxy') == 'tunnel':
            # inside a tunnel the origin is addressed directly: origin-form target; the tunnel itself must have been
            # opened to this hop's host and port (port always explicit in CONNECT)
            part.count('tunnelled_requests_captured')
            want_authority = '{}:{}'.format('[' + info.hostname + ']' if ':' in info.hostname else info.hostname, info.port)
            if tunnel_of.get(cid) is None:
                part.violation('https-request-to-proxy-outside-tunnel/' + cls, {'raw': raw[:200], 'url': info.url}, replay)
            elif tunnel_of[cid] != want_authority:
                part.violation('request-sent-through-tunnel-to-other-authority/' + cls,
                               {'tunnel': tunnel_of[cid], 'expected': want_authority, 'url': info.url}, replay)
            else:
                part.count('tunnel_authority_matches_hop')
        elif via_proxy(case, info):
            # absolute-form: the hop's normalized URL
            want_target = info.url
            part.count('proxied_requests_captured')
            if case['proxy'] == 'tls':
                part.count('requests_relayed_by_tls_proxy_captured')
        if via_proxy(case, info) and case['proxy'] != 'tunnel':
            # a relative Location keeps the authority of its base, including user info (RFC 3986 5.2): compare the
            # absolute form without user info
            strip = lambda u: re.sub(r'^(https?://)[^/@]*@', r'\1', u)  # noqa
            target_cmp, want_cmp = strip(target), strip(want_target)
        else:
            target_cmp, want_cmp = target, want_target
        if target_cmp != want_cmp:
            part.violation('request-target-differs/' + cls, {'target': target, 'expected': want_target, 'url': info.url}, replay)
        if any(n == 'proxy-authorization' for n, v in fields) and (addr, port) != ('127.0.2.100', 3128):
            part.violation('proxy-credentials-sent-to-an-origin-server/' + cls, {'to': host_of(info), 'raw': raw[:200]}, replay)
        elif case.get('proxy') == 'auth' and (addr, port) != ('127.0.2.100', 3128):
            part.count('direct_requests_beside_an_authenticating_proxy')
        hosts = [v for n, v in fields if n == 'host']
        for hv in hosts:
            # independent of wpull's own URL parser: a Host value is a reg-name / IP literal with an optional port
            if not re.match(r'^(\[[0-9A-Fa-f:.]+\]|[A-Za-z0-9._~-]+)(:[0-9]+)?$', hv):
                part.violation('host-field-is-not-a-host/' + cls, {'host_field': hv, 'hop_url': info.url}, replay)
        if len(hosts) != 1:
            part.violation('host-field-count/{}'.format(len(hosts)), {'raw': raw[:300]}, replay)
        elif hosts[0] != host_of(info):
            is_replay = exp['kind'] == 'hop' and exp.get('index', 0) > 0 and hops[exp['index'] - 1]['code'] in (307, 308)
            part.violation('host-field-names-other-host/' + ('replayed-307-308-request' if is_replay else cls),
                           {'host_field': hosts[0], 'expected': host_of(info), 'hop_url': info.url,
                            'previous_hop': hops[exp['index'] - 1]['url'] if exp.get('index') else None}, replay)
        else:
            part.count('host_field_correct')
        for n, v in fields:
            if n == 'authorization':
                if host_of(info) in own_userinfo_hosts:
                    part.count('authorization_from_the_hop_urls_own_user_info')
                elif cred_host is None or host_of(info) != cred_host:
                    is_replay = exp.get('index', 0) > 0 and hops[exp['index'] - 1]['code'] in (307, 308)
                    part.violation('credentials-sent-to-other-host/' + ('replayed-307-308-request' if is_replay else cls),
                                   {'to': host_of(info), 'credentials_for': cred_host}, replay)
                else:
                    part.count('authorization_to_own_host')
            if n == 'cookie':
                for pair in v.split(';'):
                    name = pair.strip().split('=', 1)[0]
                    origin = seen_setcookie.get(name)
                    if origin is not None and origin != info.hostname:
                        is_replay = exp.get('index', 0) > 0 and hops[exp['index'] - 1]['code'] in (307, 308)
                        part.violation('cookie-sent-to-other-host/' + ('replayed-307-308-request' if is_replay else cls),
                                       {'cookie': pair.strip(), 'set_by': origin, 'sent_to': info.hostname}, replay)
                    elif origin is not None:
                        part.count('cookies_to_own_host')
            if n == 'referer' and v.startswith('https://') and info.scheme == 'http':
                part.count('https_referer_on_http_request')
    if case.get('late_challenge') is not None:
        # (a challenge for which the client has no credentials ends the visit there: fewer requests than hops is expected)
        part.count('chains_with_a_challenge_on_a_later_hop')
    elif len(reqs) < len(expected) and not outcome.get('error'):
        part.violation('fewer-requests-than-hops/' + cls, {'got': len(reqs), 'expected': len(expected)}, replay)


def classify_problem(p):
    if 'request line' in p:
        return 'request-line'
    return 'header-line'


def worker(job):
    import compat
    compat.install()
    import logging
    logging.disable(logging.CRITICAL)
    import warnings
    warnings.simplefilter('ignore')
    part = common.Part()
    if 'replay' in job and job['replay'].get('relay'):
        from checks import c16c_relay
        c16c_relay.run_case(job['replay'], part)
        return part.dump()
    if 'replay' in job and job['replay'].get('crawl'):
        from checks import c16b_crawl
        c16b_crawl.run_case(job['replay'], part)
        return part.dump()
    if 'replay' in job:
        run_case(job['replay'], part)
        return part.dump()
    rng = random.Random(job['seed'])
    from checks import c16b_crawl
    for n in range(job.get('n_crawls', 0)):
        c16b_crawl.run_case(c16b_crawl.gen_case(rng), part)
    from checks import c16c_relay
    for n in range(job.get('n_relay', 0)):
        c16c_relay.run_case(c16c_relay.gen_case(rng), part)
    for n in range(job['n']):
        case = gen_case(rng)
        run_case(case, part)
        if n % 199 == 0:
            part.sample(case)
    return part.dump()


def main():
    check = common.Check('C16')
    check.rule = ('redirect chains of 1-6 hops over 301/302/303/307/308 across hosts, ports, IDN and IPv6 hosts with hostile path/'
                  'query material (encoded CR LF, spaces, NUL, "HTTP/1.1", quotes, non-ASCII), Set-Cookie on some hops, credentials '
                  'in the first URL with and without a 401 challenge, referrers; every captured request parsed strictly. '
                  'distinct_nontrivial = distinct (chain class, hops, credentials, redirect codes)')
    check.assumptions = ['TLS itself is simulated (plain bytes after the handshake point); certificate checks are outside this property']
    target = 'checks.c16_requests:worker'
    if check.args.replay:
        with open(check.args.replay) as f:
            rp = json.load(f)
        res = par.run_jobs(target, [{'seed': 0, 'replay': rp['replay']}], 1, timeout=120)
    else:
        total = int((200000 if check.thorough else 25600) * check.scale)
        nj = check.jobs * (4 if check.thorough else 1)
        crawls = int((4000 if check.thorough else 160) * check.scale)
        relays = int((40000 if check.thorough else 1600) * check.scale)
        jobs = [{'seed': check.seed * 1000003 + i, 'n': max(1, total // nj), 'n_crawls': max(1, crawls // nj), 'n_relay': max(1, relays // nj)}
                for i in range(nj)]
        res = par.run_jobs(target, jobs, check.jobs, timeout=7200 if check.thorough else 900)
    for r in res:
        if '_error' in r:
            check.note_inconclusive('worker: ' + r['_error'] + ' ' + r.get('_stderr', '')[-400:])
        else:
            check.merge(r)
    check.finish(required_counters=() if check.args.replay else ('requests_captured', 'host_field_correct', 'crawls_with_requests_to_several_origins',
                                                                              'relayed_requests_reached_their_own_origin_whole'))


if __name__ == '__main__':
    main()
