'''C04 - WARC records hold exactly the bytes exchanged on the wire (oracle in warc_common.oracle_c04).'''
from checks import warc_common

if __name__ == '__main__':
    warc_common.main(
        'C04',
        'generated response sequences (9 header spellings x framings incl. chunked with extensions/trailers, close, '
        'overrun, 204/304/HEAD, content codings, binary bodies; 1-6 exchanges on persistent connections) recorded by '
        'the real WARCRecorder across recorder configurations; every script is run under whole / all-single-byte / '
        'boundary-cut / random segmentation and blocks must be byte-identical to the wire and across segmentations. '
        'distinct_nontrivial = distinct (header style, framing, coding, segmentation, recorder config bits)',
        ('response_blocks_equal_wire', 'request_blocks_equal_wire', 'blocks_identical_across_segmentations'))
