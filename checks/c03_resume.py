'''C03 - a killed crawl resumes from its database without loss or refetch.

Fault enumeration: a counting run lists every SQL statement, every commit and every server request of
a crawl; then for every such point the crawler (a child process) is SIGKILLed exactly there
(before/after statement k, before/after commit k, at request k on the request line / after the
headers / mid body / after the response), the database files are copied, and the same command is run
again.  The oracle works on the two request logs, the post-kill copy and the final rows.
'''
import json
import os
import random
import shutil
import signal
import sqlite3
import subprocess
import tempfile
import time

from harness import common, par, sitegen

PHASES = ['request-line', 'after-headers', 'mid-body', 'after-response']


def canon_request(entry):
    if 'url' in entry:
        return entry['url']
    host = entry['host'].lower()
    if host.endswith(':80'):
        host = host[:-3]
    return 'http://' + host + entry['target']


def build_site(case):
    rng = random.Random(case['site_seed'])
    site = sitegen.generate(rng, n_pages=case['n_pages'], redirects=case.get('redirects', True))
    site.inputs = []
    for k in range(case.get('many_inputs', 0)):
        # further start URLs (given in an input file): leaves that nothing links to
        leaf = site.add(sitegen.Page('http://%s/in/leaf%d.html' % (site.host, k), 'leaf'))
        site.inputs.append(leaf.url)
    return site


def argv_for(site, tmp, concurrent, case=None):
    case = case or {}
    extra = []
    if site.inputs:
        path = os.path.join(tmp, 'inputs.txt')
        with open(path, 'w') as f:
            f.write(''.join(u + '\n' for u in site.inputs))
        extra = ['--input-file', path]
    # the same on-disk table can be named by path or by SQLAlchemy URI; the tries limit must not matter when no fetch fails
    db = ['--database-uri', 'sqlite:///' + os.path.join(tmp, 'crawl.db')] if case.get('db_uri') else \
        ['--database', os.path.join(tmp, 'crawl.db')]
    if case.get('convert_links'):
        extra += ['--convert-links']          # link conversion runs after the downloads and keeps its own queue in the table
    if case.get('sitemaps'):
        extra += ['--sitemaps']               # adds /robots.txt and /sitemap.xml of every start URL's site
    return extra + [site.start, '-r', '--level', 'inf', '--no-robots'] + db + [
            '-P', tmp, '--concurrent', str(concurrent)] + ([] if case.get('convert_links') else ['--delete-after']) + [
            '--page-requisites', '--quiet', '--waitretry', '0', '--tries', str(case.get('tries', 3))]


FI_SO = os.path.join(common.VERIF, 'harness', 'fi', 'fi.so')


def spawn(spec, tmp, tag, fi=None):
    spec_path = os.path.join(tmp, 'spec-%s.json' % tag)
    with open(spec_path, 'w') as f:
        json.dump(spec, f)
    env = par.child_env()
    if fi:
        # syscall-level kill on the database files (pwrite / fdatasync / ftruncate of crawl.db, -wal, -shm)
        env.update({'LD_PRELOAD': FI_SO, 'FI_PATH': os.path.join(tmp, 'crawl.db'), 'FI_ARMED': '1',
                    'FI_AT': str(fi.get('at', 0)), 'FI_MODE': fi.get('mode', 'kill_torn')})
        if fi.get('log'):
            env['FI_LOG'] = fi['log']
    return subprocess.Popen([par.PY, '-m', 'harness.crawlchild', spec_path], cwd=tmp, env=env,
                            stdout=subprocess.PIPE, stderr=subprocess.STDOUT, start_new_session=True)


def wait(proc, timeout=120):
    try:
        out, _ = proc.communicate(timeout=timeout)
        return proc.returncode, out.decode('utf-8', 'replace')[-1500:]
    except subprocess.TimeoutExpired:
        try:
            os.killpg(proc.pid, signal.SIGKILL)
        except OSError:
            pass
        proc.communicate()
        return 'timeout', ''


def read_rows(db):
    from harness import crawl
    return crawl.read_table(db)


class _FtpLog(object):
    '''The FTP server's command log in the shape the HTTP request log has: one entry per served LIST / RETR.'''
    def __init__(self, server):
        self.server = server

    def snapshot(self):
        out = []
        for e in self.server.snapshot():
            if e['cmd'] in ('LIST', 'MLSD', 'RETR') and e.get('served'):
                path = e['path'] + ('/' if e['cmd'] != 'RETR' and not e['path'].endswith('/') else '')
                out.append({'url': 'ftp://f.test' + path, 'seq': len(out), 'cmd': e['cmd']})
        return out


class _FtpSrv(object):
    def __init__(self, server):
        self.server = server
        self.log = _FtpLog(server)
        self.on_request = None

    def stop(self):
        self.server.stop()


class _FtpSite(object):
    host = 'f.test'
    inputs = ()

    def __init__(self, tree):
        self.tree = tree
        self.start = 'ftp://f.test/pub/'
        # (for the classifier of missing requests: page -> links)
        self.pages = {}


def run_case(case, part):
    from harness import servers
    if case.get('ftp'):
        from harness import ftpserver
        from checks import c02c_ftp
        site = _FtpSite(c02c_ftp.gen_tree(random.Random(case['site_seed'])))
        addrs, port = servers.allocate_addresses(1, port=21)
        srv = _FtpSrv(ftpserver.FTPServer(site.tree, addrs[0], 21).start())
    else:
        site = build_site(case)
        addrs, port = servers.allocate_addresses(1)
        handler = sitegen.make_handler(site)
        if case.get('flaky'):
            # some pages answer 503 to their first one or two requests (counted over both runs: the server lives on): a URL
            # may be waiting for its retry, or be in the middle of it, when the crawler is killed
            frng = random.Random(case['site_seed'] ^ 0xF1A)
            pages = sorted(u for u, p in site.pages.items() if p.kind == 'html' and u != site.start)
            flaky = {u: frng.choice([1, 2]) for u in frng.sample(pages, min(len(pages), max(1, len(pages) // 2)))}
            plain = handler

            def handler(req, plain=plain, flaky=flaky):
                url = canon_request(req)
                if flaky.get(url, 0) > 0:
                    flaky[url] -= 1
                    return {'status': 503, 'reason': 'Service Unavailable', 'headers': [('Content-Type', 'text/html')],
                            'body': b'<html><body>try again</body></html>'}
                return plain(req)
        srv = servers.Server(handler, addrs, port, delay_seed=case.get('delay_seed', 0),
                             max_delay=0.003 if case['concurrent'] > 1 else 0).start()
    tmp = tempfile.mkdtemp(prefix='vc03')
    kill = case.get('kill')
    replay = case
    try:
        argv = argv_for(site, tmp, case['concurrent'], case)
        table = {site.host: addrs[0]}
        res1_path = os.path.join(tmp, 'res1.json')
        sql_kill = kill if kill and kill['kind'] in ('before_stmt', 'after_stmt', 'before_commit', 'after_commit') else None
        fi = None
        if kill and kill['kind'] == 'fi_write':
            fi = {'at': kill['at'], 'mode': kill['mode']}
        elif kill is None and case.get('count_fi') and os.path.exists(FI_SO):
            fi = {'at': 0, 'mode': 'err', 'log': os.path.join(tmp, 'fi.log')}
        proc = spawn({'argv': argv, 'table': table, 'kill': sql_kill, 'result_file': res1_path}, tmp, 'run1', fi=fi)
        if kill and kill['kind'] == 'request':
            def on_request(entry, phase, pid=proc.pid):
                if entry['seq'] == kill['at'] and phase == kill['phase']:
                    try:
                        os.kill(pid, signal.SIGKILL)
                    except OSError:
                        pass
                    time.sleep(0.05)
            srv.on_request = on_request
        big = 600 if case.get('many_inputs') else 120
        rc1, out1 = wait(proc, timeout=big)
        if kill and kill['kind'] == 'fi_write' and rc1 == 137:
            rc1 = -9        # fi.so terminates with _exit(137)
        srv.on_request = None
        log1 = srv.log.snapshot()
        n1 = len(log1)
        if kill is None:
            # counting / reference run
            with open(res1_path) as f:
                res1 = json.load(f)
            rows = read_rows(os.path.join(tmp, 'crawl.db'))
            fi_ops = 0
            try:
                with open(os.path.join(tmp, 'fi.log')) as f:
                    fi_ops = sum(1 for line in f if line.split()[1:2] and line.split()[1] in ('pwrite', 'write', 'fdatasync',
                                                                                                'fsync', 'ftruncate'))
                    f.seek(0)
                    fi_total = sum(1 for _ in f)
            except OSError:
                fi_total = 0
            return {'counts': res1['counts'], 'requests': [canon_request(e) for e in log1], 'exit': res1['exit_status'], 'log': res1.get('log', '')[-1500:],
                    'rows': rows, 'fi_total_ops': fi_total}
        part.evaluations += 1
        kind = kill['kind'] if kill['kind'] != 'request' else 'request:' + kill['phase']
        if kill['kind'] == 'fi_write':
            kind = 'fi_write:' + kill['mode']
        part.count('kills_' + kind.split(':')[0])
        if rc1 != -9:
            # the kill point was not reached in this run (counts vary slightly with concurrency)
            part.count('kill_point_not_reached')
            return None
        part.count('killed_runs')
        # ---- post-kill copy
        copy_dir = os.path.join(tmp, 'copy')
        os.makedirs(copy_dir)
        # (with --database-uri the table is opened without wpull's pragmas: rollback-journal mode, whose hot journal belongs to
        # the state just as the write-ahead log does)
        for name in ('crawl.db', 'crawl.db-wal', 'crawl.db-shm', 'crawl.db-journal'):
            p = os.path.join(tmp, name)
            if os.path.exists(p):
                shutil.copy2(p, os.path.join(copy_dir, name))
        copy_db = os.path.join(copy_dir, 'crawl.db')
        if not os.path.exists(copy_db):
            part.count('killed_before_database_created')
            post = []
        else:
            try:
                con = sqlite3.connect(copy_db)
                integrity = con.execute('PRAGMA integrity_check').fetchall()
                con.close()
                if integrity != [('ok',)]:
                    part.violation('database-integrity-check-failed/' + kind, {'result': integrity[:3]}, replay)
                post = read_rows(copy_db)
            except sqlite3.DatabaseError as e:
                if 'no such table' in str(e):
                    # killed while the schema was being created: nothing recorded yet
                    part.count('killed_before_tables_created')
                    post = []
                else:
                    part.violation('post-kill-database-unreadable/' + kind, {'error': str(e)}, replay)
                    return None
        done_before = set(r['url'] for r in post if r['status'] in ('done', 'skipped'))
        all_before = set(r['url'] for r in post)
        # ---- resume
        res2_path = os.path.join(tmp, 'res2.json')
        proc2 = spawn({'argv': argv, 'table': table, 'kill': None, 'result_file': res2_path}, tmp, 'run2')
        rc2, out2 = wait(proc2, timeout=big)
        log_all = srv.log.snapshot()
        log2 = log_all[n1:]
        req1 = [canon_request(e) for e in log1]
        req2 = [canon_request(e) for e in log2]
        detail_base = {'kill': kill, 'requests_run1': len(req1), 'requests_run2': len(req2)}
        try:
            with open(res2_path) as f:
                res2 = json.load(f)
        except (OSError, ValueError):
            part.violation('resume-run-did-not-finish/' + kind, dict(detail_base, rc=rc2, out=out2[-600:]), replay)
            return None
        if case.get('flaky') and res2['exit_status'] == 8 and not res2['crashed']:
            part.count('resume_runs_that_met_a_503')        # (exit status 8: a server error occurred in this run; it was retried)
        elif res2['exit_status'] != 0 or res2['crashed']:
            part.violation('resume-run-exit-status/' + kind, dict(detail_base, exit=res2['exit_status'],
                                                                  log=res2['log'][-600:]), replay)
        refetched = sorted(set(req2) & done_before)
        if refetched:
            part.violation('done-url-requested-again/' + kind, dict(detail_base, urls=refetched[:5]), replay)
        else:
            part.count('no_refetch_confirmed')
        final = read_rows(os.path.join(tmp, 'crawl.db'))
        final_urls = set(r['url'] for r in final)
        lost = sorted(all_before - final_urls)
        if lost:
            part.violation('discovered-url-lost/' + kind, dict(detail_base, urls=lost[:5]), replay)
        stuck = [r for r in final if r['status'] not in ('done', 'skipped')]
        if stuck:
            part.violation('row-not-final-after-resume/{}/{}'.format(stuck[0]['status'], kind),
                           dict(detail_base, rows=stuck[:3]), replay)
        missing = sorted(set(case['reference_requests']) - set(req1) - set(req2))
        if missing:
            # classify: children of a page that was already 'done' in the post-kill copy?
            parents_done = []
            for m in missing:
                if case.get('ftp'):
                    parent_dir = m.rstrip('/').rsplit('/', 1)[0] + '/'
                    if parent_dir in done_before:
                        parents_done.append(parent_dir)
                    continue
                for u, p in site.pages.items():
                    if any(l['target'] == m for l in p.links) and u in done_before:
                        parents_done.append(u)
            mech = 'children-of-done-parent-never-recorded' if parents_done else 'other'
            part.violation('uninterrupted-crawl-requests-missing/{}'.format(mech),
                           dict(detail_base, missing=missing[:5], done_parents=sorted(set(parents_done))[:3],
                                kind=kind), replay)
        else:
            part.count('union_covers_reference')
        if 0 < len(req1) < len(case['reference_requests']):
            part.nontrivial_case('{}/{}/{}/{}'.format(case['site_seed'], case['concurrent'], kind, kill['at']))
        return None
    finally:
        srv.stop()
        shutil.rmtree(tmp, ignore_errors=True)


def worker(job):
    part = common.Part()
    if job.get('count'):
        return run_case(job['case'], part)
    cases = [job['replay']] if 'replay' in job else job['cases']
    for case in cases:
        run_case(case, part)
    return part.dump()


def main():
    check = common.Check('C03', level='fault_enumeration')
    check.rule = ('for each workload (site, concurrency): every SQL statement k (kill before/after), every commit k (kill before/'
                  'after) and every server request k x {request line, after headers, mid body, after response}; then resume. '
                  'distinct_nontrivial = distinct (site, concurrency, kill kind, k) where the kill happened after >= 1 and before '
                  'the last request')
    check.assumptions = ['kill = SIGKILL of the crawler process (no power loss): SQLite WAL content written before the kill is visible',
                         'level inf so that the set an uninterrupted crawl fetches does not depend on discovery order']
    check.trusted_base += ['harness/crawlchild.py SQLAlchemy engine-event kill hooks', 'harness/servers.py']
    target = 'checks.c03_resume:worker'
    # the syscall injector is built by setup_cmd; build it here when it is missing (fresh restore without setup)
    try:
        from checks import c06_warcfault
        c06_warcfault.ensure_fi()
    except Exception:
        pass
    if check.args.replay:
        with open(check.args.replay) as f:
            rp = json.load(f)
        res = par.run_jobs(target, [{'replay': rp['replay']}], 1, timeout=600)
    else:
        rng = random.Random(check.seed)
        workloads = []
        n_sites = 6 if check.thorough else 1
        for s in range(n_sites):
            site_seed = rng.randrange(1 << 30) if (check.thorough or check.seed) else 12345
            for conc in ((1, 3) if check.thorough else (2,)):
                workloads.append({'site_seed': site_seed, 'n_pages': rng.choice([8, 12, 20]) if check.thorough else 7,
                                  'concurrent': conc, 'delay_seed': rng.randrange(1 << 30)})
        # option variants of the first workload: --tries 1 (an interrupted item must not be charged a try), table named by URI
        base = dict(workloads[0])
        workloads.append(dict(base, tries=1, variant='tries1'))
        workloads.append(dict(base, db_uri=True, variant='db-uri'))
        workloads.append(dict(base, convert_links=True, variant='convert-links'))
        workloads.append(dict(base, sitemaps=True, variant='sitemaps'))
        workloads.append(dict(base, flaky=True, variant='flaky', site_seed=rng.randrange(1 << 30) if (check.thorough or check.seed) else 777,
                              n_pages=6))
        if check.thorough:
            workloads.append(dict(workloads[1], tries=1, db_uri=True, variant='tries1+db-uri'))
        # a recursive FTP crawl of a directory tree (entries of a listing are the children of the directory's URL)
        workloads.append({'ftp': True, 'site_seed': rng.randrange(1 << 30) if (check.thorough or check.seed) else 4242, 'n_pages': 0,
                          'concurrent': 1, 'delay_seed': 0, 'variant': 'ftp'})
        # a crawl with more start URLs than fit in one batch of the input task (1000): kills while the start URLs are
        # being stored
        for n_in in ((1001, 2500) if check.thorough else (1001,)):
            workloads.append({'site_seed': rng.randrange(1 << 30), 'n_pages': 3, 'concurrent': 4, 'many_inputs': n_in,
                              'delay_seed': rng.randrange(1 << 30)})
        counts = par.run_jobs(target, [{'count': True, 'case': dict(w, kill=None, count_fi=True)} for w in workloads],
                              check.jobs, timeout=900)
        cases = []
        for w, c in zip(workloads, counts):
            if not c or '_error' in c or c.get('exit') not in ((0, 8) if w.get('flaky') else (0,)):
                check.note_inconclusive('counting run failed: {}'.format(str(c)[:300]))
                continue
            ref = sorted(set(c['requests']))
            S, C, R = c['counts']['stmt'], c['counts']['commit'], len(c['requests'])
            check.count('sql_statements_enumerated', S)
            check.count('commits_enumerated', C)
            check.count('requests_enumerated', R)
            check.sample({'workload': w, 'statements': S, 'commits': C, 'requests': R, 'reference_requests': ref[:6]})
            points = []
            if w.get('many_inputs'):
                # only the phase in which the start URLs are stored: the statements and commits right after the schema
                ddl = c['counts'].get('ddl', 0)
                first_update = c['counts'].get('first_update_stmt', ddl + 9)
                setup_commits = c['counts'].get('commits_before_first_update', 4)
                points = [{'kind': 'before_stmt', 'at': k} for k in range(ddl + 1, first_update + 1)]
                points += [{'kind': 'after_commit', 'at': k} for k in range(1, setup_commits + 1)]
                if check.thorough:
                    points += [{'kind': 'before_commit', 'at': k} for k in range(1, setup_commits + 1)]
                    points += [{'kind': 'after_stmt', 'at': k} for k in range(ddl + 1, first_update + 1)]
                check.count('kill_points_while_storing_start_urls', len(points))
                for p in points:
                    cases.append(dict(w, kill=p, reference_requests=ref))
                continue
            if w.get('variant') and not check.thorough:
                # quick tier: the option variants get the kills of the phase the option touches
                if w['variant'] == 'convert-links':
                    # the link conversion phase: the last statements and commits of the run
                    points += [{'kind': 'before_stmt', 'at': k} for k in range(max(1, S - 24), S + 1)]
                    points += [{'kind': 'after_commit', 'at': k} for k in range(max(1, C - 12), C + 1)]
                elif w['variant'] == 'ftp':
                    points += [{'kind': 'before_stmt', 'at': k} for k in range(1, S + 1)]
                    points += [{'kind': 'after_commit', 'at': k} for k in range(1, C + 1)]
                elif w['variant'] == 'sitemaps':
                    # the extra URLs are queued while the first page is processed: the first statements and commits
                    ddl = c['counts'].get('ddl', 0)
                    points += [{'kind': 'before_stmt', 'at': k} for k in range(ddl + 1, min(S, ddl + 26))]
                    points += [{'kind': 'after_commit', 'at': k} for k in range(1, min(C, 14))]
                else:
                    for k in range(R):
                        for ph in ('request-line', 'after-response'):
                            points.append({'kind': 'request', 'at': k, 'phase': ph})
                    if w['variant'] == 'db-uri':
                        # the table class behind --database-uri sets its schema up itself: kills at every statement of that phase
                        ddl = c['counts'].get('ddl', 0)
                        points += [{'kind': 'before_stmt', 'at': k} for k in range(1, ddl + 3)]
                        points += [{'kind': 'after_stmt', 'at': k} for k in range(1, ddl + 1)]
                check.count('kill_points_option_variants', len(points))
                for p in points:
                    cases.append(dict(w, kill=p, reference_requests=ref))
                continue
            for k in range(1, C + 1):
                if check.thorough or k % 2 == 0:
                    points.append({'kind': 'before_commit', 'at': k})      # (quick tier: every second one)
                points.append({'kind': 'after_commit', 'at': k})
            for k in range(1, S + 1):
                points.append({'kind': 'before_stmt', 'at': k})
                if check.thorough:
                    points.append({'kind': 'after_stmt', 'at': k})
            for k in range(R):
                for ph in PHASES:
                    points.append({'kind': 'request', 'at': k, 'phase': ph})
            # syscall-level kills on the database files: torn write / kill after the operation
            F = c.get('fi_total_ops') or 0
            check.count('db_file_operations_enumerated', F)
            if F:
                ks = range(1, F + 1) if check.thorough else sorted(set(rng.randrange(1, F + 1) for _ in range(24)))
                for k in ks:
                    points.append({'kind': 'fi_write', 'at': k, 'mode': 'kill_torn'})
                    if check.thorough:
                        points.append({'kind': 'fi_write', 'at': k, 'mode': 'kill_after'})
            for p in points:
                cases.append(dict(w, kill=p, reference_requests=ref))
        check.extra['kill_points_enumerated'] = len(cases)
        rng.shuffle(cases)
        budget = int(16000 * check.scale)
        if check.thorough and len(cases) > budget:
            # a run has to end: beyond the budget (about an hour on 16 cores) a uniform sample of the enumerated kill points
            # is executed; the evidence states both numbers
            cases = cases[:budget]
            check.extra['kill_points_sampled'] = True
        check.extra['kill_points'] = len(cases)
        nj = check.jobs * 4
        jobs = [{'cases': cases[i::nj]} for i in range(nj) if cases[i::nj]]
        res = par.run_jobs(target, jobs, check.jobs, timeout=7200 if check.thorough else 1500)
    for r in res:
        if r is None:
            continue
        if '_error' in r:
            check.note_inconclusive('worker: ' + r['_error'] + ' ' + r.get('_stderr', '')[-400:])
        else:
            check.merge(r)
    check.exhaustive = not check.inconclusive and not check.extra.get('kill_points_sampled')
    check.finish(required_counters=() if check.args.replay else ('killed_runs', 'no_refetch_confirmed', 'union_covers_reference'))


if __name__ == '__main__':
    main()
