'''C20 - with robots enabled, disallowed URLs are never requested.

End-to-end monitor: crawls with robots.txt checking on against the harness server; the request log
(with arrival and completion times on one clock) is checked against an independent robots.txt matcher
restricted to the consensus fragment, and against the ordering / caching / 404 / 5xx / nofollow clauses.
'''
import json
import os
import random
import shutil
import tempfile

from harness import common, par, sitegen

UA_DEFAULT = None    # wpull's own default: 'Wpull/<version> (gzip)'


# ------------------------------------------------------------------ reference matcher (consensus fragment)
def parse_robots(text):
    groups = []
    current = None
    last_was_agent = False
    if text.startswith('\xef\xbb\xbf') or text.startswith('\ufeff'):
        text = text[3:] if text.startswith('\xef') else text[1:]      # a byte order mark in front of the first line is not content
    for raw in text.splitlines():
        line = raw.split('#', 1)[0].strip()
        if not line or ':' not in line:
            continue
        field, value = line.split(':', 1)
        field = field.strip().lower()
        value = value.strip()
        if field == 'user-agent':
            if current is None or not last_was_agent:
                current = {'agents': [], 'rules': []}
                groups.append(current)
            current['agents'].append(value.lower())
            last_was_agent = True
        elif field in ('allow', 'disallow'):
            last_was_agent = False
            if current is not None:
                current['rules'].append((field, value))
        else:
            last_was_agent = False
    return groups


def ref_allowed(text, user_agent, path):
    groups = parse_robots(text)
    ua = user_agent.lower()
    chosen = None
    for g in groups:
        if any(a != '*' and a in ua for a in g['agents']):
            chosen = g
            break
    if chosen is None:
        for g in groups:
            if '*' in g['agents']:
                chosen = g
                break
    if chosen is None:
        return True
    # generated rule sets never contain overlapping allow/disallow prefixes, so first match == longest match
    for kind, prefix in chosen['rules']:
        if prefix == '':
            continue
        if path.startswith(prefix):
            return kind == 'allow'
    return True


def norm_host(h):
    h = h.lower()
    return h[:-3] if h.endswith(':80') else h


# ------------------------------------------------------------------ generator
def gen_robots(rng, site, agent_token):
    paths = sorted(set(sitegen.split_url(u)[2] for u in site.pages))
    dirs = sorted(set(p.rsplit('/', 1)[0] + '/' for p in paths if p.count('/') > 1))
    start_path = sitegen.split_url(site.start)[2]

    qprefixes = sorted(set(p[:p.index('?') + k] for p in paths if '?' in p for k in (1, 3, 8) if p.index('?') + k <= len(p)))

    def rules():
        out = []
        used = []
        for _ in range(rng.choice([0, 1, 2, 3])):
            cand = rng.choice(dirs + paths + qprefixes + qprefixes) if dirs else rng.choice(paths + qprefixes)
            if cand == '/' or start_path.startswith(cand) or any(cand.startswith(u) or u.startswith(cand) for u in used):
                continue
            used.append(cand)
            out.append(('Disallow', cand))
        if rng.random() < 0.2 or not out:
            # (a group without any rule line is outside the consensus fragment: parsers disagree on whether it
            # shadows the * group, so every generated group has at least one rule line)
            out.append(('Disallow', ''))
        if rng.random() < 0.2:
            cand = '/allowed-only-%d/' % rng.randrange(10)
            out.insert(rng.randrange(len(out) + 1), ('Allow', cand))
        return out
    groups = []
    if rng.random() < 0.8:
        groups.append(('*', rules()))
    if rng.random() < 0.5:
        groups.append((rng.choice([agent_token, agent_token.upper(), agent_token.capitalize()]), rules()))
    if rng.random() < 0.4:
        groups.append(('googlebot', [('Disallow', '/')]))
    rng.shuffle(groups)
    lines = []
    pad_position = rng.choice(['none', 'none', 'front', 'middle'])
    pad = ''.join('# padding line %04d %s\n' % (i, 'x' * 60) for i in range(rng.choice([70, 120, 300])))
    if pad_position == 'front':
        lines.append(pad)
    # comment-only lines (also indented ones) are discarded completely and do not end a group; a comment may also
    # follow a directive on its line
    comments = rng.random() < 0.35

    def maybe_comment():
        if comments and rng.random() < 0.5:
            lines.append(rng.choice(['# note\n', '   # indented note\n', '\t# tabbed note\n', '#\n', '  #Disallow: /\n',
                                     '# r\xe9pertoire priv\xe9 (Latin-1 bytes, not UTF-8)\n', '# \xff\xfe\n',
                                     # bytes that are line boundaries for str.splitlines() but not in a robots.txt file (which
                                     # knows CR and LF only): a Windows-1252 ellipsis, UTF-8 Cyrillic, VT, FF, FS/GS/RS
                                     '# see below\x85\n', '# \xd1\x81\xd1\x82\xd1\x80\xd0\xb0\xd0\xbd\xd0\xb8\xd1\x86\xd0\xb0\xd1\x85\n',
                                     '# a\x0bb\n', '# page\x0cbreak\n', '# \x1c\x1d\x1e\n', '#\x85\n']))
    for gi, (agent, rs) in enumerate(groups):
        maybe_comment()
        lines.append('User-agent: %s\n' % agent)
        for ri, (k, v) in enumerate(rs):
            if pad_position == 'middle' and gi == 0 and ri == 0:
                lines.append(pad)
            maybe_comment()
            lines.append('%s: %s%s\n' % (k, v, rng.choice(['', ' # trailing', '\t#x']) if comments and v else ''))
        lines.append('\n')
    text = ''.join(lines)
    if rng.random() < 0.15:
        # saved by an editor that writes a UTF-8 byte order mark (the three bytes EF BB BF; the file is served as Latin-1)
        text = '\xef\xbb\xbf' + text
    if rng.random() < 0.4:
        text = text.rstrip('\n')       # file ends right after its last rule, no final newline
    return text, pad_position + ('+comments' if comments else '')


def gen_case(rng):
    mode = rng.choice(['200', '200', '200', '200', '404', '5xx', 'redirect', 'redirect', 'nofollow'])
    return {'site_seed': rng.randrange(1 << 30), 'n_pages': rng.choice([5, 8, 12]), 'mode': mode,
            'robots_seed': rng.randrange(1 << 30), 'concurrent': rng.choice([1, 1, 2, 4, 6]),
            'agent': rng.choice([None, None, 'MyBot/1.0 (+http://x.test)', 'Mozilla/5.0 (compatible; wpull-like)']),
            'hosts': rng.choice([1, 1, 2, 2, 3]), 'delay_seed': rng.randrange(1 << 30),
            # tag filters must not hide a page's robots meta element
            'tag_options': rng.choice([[], [], ['--follow-tags', 'a,area'], ['--ignore-tags', 'meta,link'], ['--follow-tags', 'a']])}


def build(case):
    rng = random.Random(case['site_seed'])
    sites = []
    # hosts == 3: two origins that share scheme and host name and differ only in the port
    names = ['a.test', 'a.test:8080'] if case['hosts'] == 3 else ['a.test', 'b.test'][:case['hosts']]
    for host in names:
        site = sitegen.generate(rng, host=host, n_pages=case['n_pages'], redirects=False, requisites=False)
        if case.get('query_pages', True):
            # pages whose URL has a query string (rules may depend on the part after '?')
            html = [p for p in site.pages.values() if p.kind == 'html']
            for q in rng.sample(['/search?q=secret', '/search?q=public', '/d1/list?page=2&sessionid=abc', '/d1/list?page=3',
                                 '/wiki/Main?action=edit', '/wiki/Main?action=view', '/?lang=de'], 4):
                leaf = site.add(sitegen.Page('http://' + host + q, 'leaf'))
                sitegen.add_link(rng, site, rng.choice(html).url, leaf.url, 'a', ['abs-path', 'absolute'])
        sites.append(site)
    if case['mode'] == 'nofollow':
        site = sites[0]
        html = [p for p in site.pages.values() if p.kind == 'html' and p.links]
        rr = random.Random(case['robots_seed'])
        for p in rr.sample(html, max(1, len(html) // 3)):
            p.nofollow = True
            p.extra_head = '<meta name="robots" content="%s">' % rr.choice(['nofollow', 'noindex, nofollow', 'NOFOLLOW'])
            if rr.random() < 0.4:
                # several robots meta elements: any of them may carry the nofollow
                p.extra_head = rr.choice(['<meta name="robots" content="max-image-preview:large">', '<meta name="robots" content="index">',
                                          '<meta name="ROBOTS" content="noarchive">']) + p.extra_head
        # nofollow pages whose URL looks like a script to a detector that goes by the name (.jsp, .js.html, .json)
        for k, path in enumerate(rr.sample(['/catalog.jsp', '/shop/list.jsp?id=1', '/app.js.html', '/data.json.html', '/v1.js/index.html',
                                            '/d1/view.jsx', '/node.js'], 2)):
            pg = site.add(sitegen.Page('http://' + site.host + path, 'html'))
            pg.nofollow = True
            pg.extra_head = '<meta name="robots" content="nofollow">'
            for j in range(2):
                trap = site.add(sitegen.Page('http://%s/only-via-nofollow-%d-%d.html' % (site.host, k, j), 'leaf'))
                sitegen.add_link(rr, site, pg.url, trap.url, 'a', ['abs-path', 'absolute'])
            sitegen.add_link(rr, site, site.start, pg.url, 'a', ['abs-path'])
        for p in [x for x in site.pages.values() if x.nofollow]:
            if rr.random() < 0.5:
                # a followable link that precedes the meta element in the document
                p.extra_head = '<link rel="%s" href="/early-%d.html">' % (rr.choice(['next', 'canonical', 'prev']),
                                                                           rr.randrange(100)) + p.extra_head
    return sites


def run_case(case, part):
    from harness import servers, crawl
    sites = build(case)
    agent = case['agent']
    token = 'wpull' if agent is None else ('mybot' if 'MyBot' in agent else 'wpull-like')
    robots_text = {}
    pad_positions = {}
    rr = random.Random(case['robots_seed'])
    for s in sites:
        robots_text[s.host], pad_positions[s.host] = gen_robots(rr, s, token)
    mode = case['mode']

    robots_hits = {}

    def robots_handler(req):
        host = norm_host(req['host'])
        text = robots_text.get(host, '')
        robots_hits[host] = robots_hits.get(host, 0) + 1
        if robots_hits[host] > 60:
            # circuit breaker: lets a crawl that would retry robots.txt forever come to an end; the oracle then
            # reports the unbounded refetching from the log
            return {'status': 404, 'reason': 'Not Found', 'headers': [('Content-Type', 'text/plain')], 'body': b'breaker'}
        if req['target'] == '/robots-real.txt':
            return {'status': 200, 'headers': [('Content-Type', 'text/plain')], 'body': text.encode('latin-1')}
        if mode == '404' or mode == 'nofollow':
            return {'status': 404, 'reason': 'Not Found', 'headers': [('Content-Type', 'text/plain')], 'body': b'none'}
        if mode == '5xx':
            return {'status': 503, 'reason': 'Service Unavailable', 'headers': [('Content-Type', 'text/plain')],
                    'body': b'later'}
        if mode == 'redirect' and case['hosts'] == 2 and host == 'a.test' and case['robots_seed'] % 2:
            # the robots.txt of a.test is hosted elsewhere: on b.test, under another path.  b.test has a robots.txt of its own
            return {'status': 301, 'reason': 'Moved', 'headers': [('Location', 'http://b.test/hosted/robots-of-a.txt')], 'body': b''}
        if mode == 'redirect':
            # the redirect itself carries a body (sometimes much longer than the final file)
            # (bytes of the redirect's body that survive in the file read as rules would change what is allowed: an
            #  allow-everything tail, or a block-everything tail far longer than any generated robots.txt)
            filler = [b'', b'<html>moved</html>', b'<html><body>' + b'Allow: /\nmoved to /robots-real.txt ' * 120 + b'</body></html>',
                      b'<html><body>moved' + b'\nUser-agent: *\nDisallow: /\n' * 1500 + b'</body></html>']
            return {'status': 301, 'reason': 'Moved', 'headers': [('Location', '/robots-real.txt')],
                    'body': filler[case['robots_seed'] % 4]}
        # (sent as Latin-1: a comment with an accented letter is then not valid UTF-8, which must not matter)
        return {'status': 200, 'headers': [('Content-Type', 'text/plain')], 'body': text.encode('latin-1')}
    handlers = {s.host: sitegen.make_handler(s, robots=robots_handler) for s in sites}

    def handler(req):
        host = norm_host(req['host'])
        if req['target'] == '/robots-real.txt':
            return robots_handler(req)
        if req['target'] == '/hosted/robots-of-a.txt':
            return {'status': 200, 'headers': [('Content-Type', 'text/plain')], 'body': robots_text.get('a.test', '').encode('latin-1')}
        h = handlers.get(host)
        return h(req) if h else {'status': 404, 'reason': 'NF', 'body': b''}
    same_name = case['hosts'] == 3
    addrs, port = servers.allocate_addresses(1 if same_name else len(sites), extra_ports=(8080,) if same_name else ())
    srv = servers.Server(handler, addrs, port, delay_seed=case['delay_seed'],
                         max_delay=0.004 if case['concurrent'] > 1 else 0, extra_ports=(8080,) if same_name else ()).start()
    tmp = tempfile.mkdtemp(prefix='vc20')
    try:
        db = os.path.join(tmp, 'crawl.db')
        argv = [s.start for s in sites] + ['-r', '--level', 'inf', '--database', db, '-P', tmp, '--concurrent',
                                           str(case['concurrent']), '--delete-after', '--quiet', '--waitretry', '0',
                                           '--tries', '2']
        if agent:
            argv += ['--user-agent', agent]
        argv += case.get('tag_options') or []
        res = crawl.run_app(argv, {s.host.split(':')[0]: addrs[0 if same_name else i] for i, s in enumerate(sites)})
        rows = crawl.read_table(db) if os.path.exists(db) else []
        log = srv.log.snapshot()
    finally:
        srv.stop()
        shutil.rmtree(tmp, ignore_errors=True)
    part.evaluations += 1
    part.count('mode_' + mode)
    judge(case, sites, robots_text, pad_positions, res, rows, log, part)


def judge(case, sites, robots_text, pad_positions, res, rows, log, part):
    mode = case['mode']
    replay = case
    ua = None
    for e in log:
        for n, v in e['headers']:
            if n == 'user-agent':
                ua = v
        if ua:
            break
    ua = ua or 'Wpull/2'
    if res['crashed']:
        part.violation('crawl-crashed/' + mode, {'exception': res['exception'], 'log': res['log'][-600:]}, replay)
        return
    by_host = {}
    for e in log:
        host = norm_host(e['host'])
        by_host.setdefault(host, []).append(e)
    rowmap = {r['url']: r for r in rows}
    for s in sites:
        entries = by_host.get(s.host, [])
        robots_reqs = [e for e in entries if e['target'] == '/robots.txt']
        page_reqs = [e for e in entries if e['target'] not in ('/robots.txt', '/robots-real.txt', '/hosted/robots-of-a.txt')]
        text = robots_text[s.host]
        big = len(text) > 4096
        pp = pad_positions[s.host]
        size_cls = 'over-4KiB-' + pp if big else 'small' + ('+comments' if '+comments' in pp else '')
        # 1. ordering: robots.txt first
        if page_reqs:
            if not robots_reqs or robots_reqs[0]['seq'] > page_reqs[0]['seq']:
                part.violation('page-requested-before-robots-txt/' + mode, {'host': s.host}, replay)
            else:
                part.count('robots_first_confirmed')
        # 2. not requested again once obtained
        if mode in ('200', '404', 'redirect', 'nofollow') and len(robots_reqs) > 1:
            first = robots_reqs[0]
            later = [e for e in robots_reqs[1:] if first.get('served') and e['t'] > first.get('t_done', first['t'])]
            if later and len(later) == len(robots_reqs) - 1 and not concurrent_miss(robots_reqs):
                part.violation('robots-txt-requested-again-after-obtained/' + mode,
                               {'host': s.host, 'times': len(robots_reqs)}, replay)
            else:
                part.count('robots_duplicate_by_concurrent_miss')
        elif robots_reqs:
            part.count('robots_fetched_once')
        # 3. disallowed never requested
        if mode in ('200', 'redirect'):
            for e in page_reqs:
                path = e['target']
                if not ref_allowed(text, ua, path):
                    part.violation('disallowed-url-requested/{}/{}'.format(size_cls, mode),
                                   {'host': s.host, 'path': path, 'user_agent': ua, 'robots_size': len(text)}, replay)
                else:
                    part.count('requests_checked_against_robots')
            # allowed and reachable pages must still be fetched (robots must not over-block the crawl)
            want = allowed_closure(s, text, ua)
            got = set('http://' + s.host + e['target'] for e in page_reqs)
            missing = sorted(want - got)
            if missing:
                part.violation('allowed-url-not-fetched/{}/{}'.format(size_cls, mode), {'missing': missing[:4]}, replay)
            part.nontrivial_case('{}/{}/{}/{}/{}'.format(case['robots_seed'], s.host, mode, case['concurrent'], size_cls))
        elif mode in ('404', 'nofollow'):
            want = allowed_closure(s, '', ua, honour_nofollow=(mode == 'nofollow'))
            got = set('http://' + s.host + e['target'] for e in page_reqs)
            if mode == '404':
                if want - got:
                    part.violation('missing-robots-not-treated-as-allow-all', {'missing': sorted(want - got)[:4]}, replay)
                else:
                    part.count('missing_robots_allows_all')
            else:
                extra = sorted(got - want)
                if extra:
                    part.violation('link-of-nofollow-page-followed', {'followed': extra[:4],
                                                                     'nofollow_pages': [p.url for p in s.pages.values() if p.nofollow][:3]}, replay)
                else:
                    part.count('nofollow_respected')
                part.nontrivial_case('nofollow/{}/{}'.format(case['site_seed'], case['robots_seed']))
        elif mode == '5xx':
            if len(robots_reqs) > 2 * 2 + 2:
                # tries is 2 and only the start URL of this origin can be known: a handful of robots.txt fetches at most
                part.violation('robots-txt-refetched-without-bound-after-5xx', {'host': s.host, 'times': len(robots_reqs)}, replay)
            if page_reqs:
                part.violation('page-requested-although-robots-txt-5xx', {'host': s.host, 'paths': [e['target'] for e in page_reqs][:4]},
                               replay)
            else:
                part.count('server_error_on_robots_postpones')
            row = rowmap.get(s.start)
            # postponed while tries remain ('error'), given up afterwards ('skipped'); never 'done'
            if not row or row['status'] not in ('error', 'skipped'):
                part.violation('row-final-state-after-robots-5xx', {'row': row}, replay)
            part.nontrivial_case('5xx/{}/{}'.format(case['site_seed'], case['concurrent']))
    part.count('crawls_judged')
    if case['hosts'] == 3:
        part.count('crawls_with_two_origins_on_one_host_name')


def concurrent_miss(robots_reqs):
    '''True if every later robots.txt request arrived before the first one was completely answered.'''
    first = robots_reqs[0]
    done = first.get('t_done')
    if done is None:
        return True
    return all(e['t'] <= done for e in robots_reqs[1:])


def allowed_closure(site, robots, ua, honour_nofollow=False):
    seen = set()
    queue = [site.start]
    while queue:
        u = queue.pop()
        if u in seen:
            continue
        path = sitegen.split_url(u)[2]
        if not ref_allowed(robots, ua, path):
            continue
        seen.add(u)
        page = site.pages.get(u)
        if not page:
            continue
        if honour_nofollow and page.nofollow:
            continue
        for l in page.links:
            if l['kind'] == 'a' and sitegen.split_url(l['target'])[1] == site.host:
                queue.append(l['target'])
    return seen


def run_many_origins(case, part):
    '''One crawl over many origins (more than any plausible size of a rule-file cache): every origin's robots.txt is to be
    requested once, also for a URL of an early origin that is processed after the rule files of all the others arrived, and
    the disallowed page of every origin is never requested.'''
    from harness import servers, crawl
    n = case['origins']
    hosts = ['h%03d.test' % i for i in range(n)]
    addrs, port = servers.allocate_addresses(n)
    html = [('Content-Type', 'text/html; charset=utf-8')]

    def handler(req):
        t = req['target']
        if t == '/robots.txt':
            return {'status': 200, 'headers': [('Content-Type', 'text/plain')], 'body': b'User-agent: *\nDisallow: /private/\n'}
        if t in ('/a', '/b'):
            return {'status': 200, 'headers': html, 'body': b'<html><body><a href="/private/p.html">p</a></body></html>'}
        return {'status': 404, 'reason': 'NF', 'headers': html, 'body': b'nf'}
    srv = servers.Server(handler, addrs, port).start()
    tmp = tempfile.mkdtemp(prefix='vc20m')
    try:
        db = os.path.join(tmp, 'crawl.db')
        argv = ['http://%s/a' % h for h in hosts] + ['http://%s/b' % h for h in hosts] + [
            '-r', '--level', '2', '--database', db, '-P', tmp, '--delete-after', '--quiet', '--waitretry', '0', '--tries', '1']
        res = crawl.run_app(argv, dict(zip(hosts, addrs)))
        log = srv.log.snapshot()
    finally:
        srv.stop()
        shutil.rmtree(tmp, ignore_errors=True)
    part.evaluations += 1
    part.count('many_origin_crawls')
    part.nontrivial_case('many-origins/%d' % n)
    replay = case
    if res['crashed'] or res['exit_status'] != 0:
        part.violation('crawl-crashed/many-origins', {'exit': res['exit_status'], 'exception': res['exception'], 'log': res['log'][-600:]}, replay)
        return
    per_host = {}
    for e in log:
        per_host.setdefault(norm_host(e['host']), []).append(e['target'])
    again = sorted(h for h in hosts if per_host.get(h, []).count('/robots.txt') > 1)
    never = sorted(h for h in hosts if '/robots.txt' not in per_host.get(h, []))
    private = sorted(h for h in hosts if any(t.startswith('/private/') for t in per_host.get(h, [])))
    if again:
        part.violation('robots-txt-requested-again-after-obtained/many-origins', {'origins': n, 'hosts_asked_again': len(again), 'first': again[:3]}, replay)
    elif never:
        part.violation('page-requested-before-robots-txt/many-origins', {'origins': n, 'hosts': never[:3]}, replay)
    else:
        part.count('many_origins_each_robots_txt_once', n)
    if private:
        part.violation('disallowed-url-requested/many-origins', {'origins': n, 'hosts': private[:3]}, replay)


def worker(job):
    import compat
    compat.install()
    import logging
    logging.disable(logging.CRITICAL)
    part = common.Part()
    cases = [job['replay']] if 'replay' in job else job['cases']
    for case in cases:
        if case.get('mode') == 'many-origins':
            run_many_origins(case, part)
            continue
        run_case(case, part)
        if len(part.samples) < 2:
            part.sample(case)
    return part.dump()


def main():
    check = common.Check('C20')
    check.rule = ('crawls with robots on: generated robots.txt (0-20 KiB, padding before or inside the rules, groups *, the '
                  'crawler token in three spellings, an unrelated agent; Disallow/Allow on disjoint prefixes) served 200 / 404 / '
                  '503 / via 301; 1-2 origins; concurrency 1-6; three user-agent strings; pages with meta robots nofollow. '
                  'distinct_nontrivial = distinct (robots file, origin, mode, concurrency, size class)')
    check.trusted_base += ['reference robots matcher in checks/c20_robots.py (consensus fragment only)', 'harness/servers.py']
    target = 'checks.c20_robots:worker'
    if check.args.replay:
        with open(check.args.replay) as f:
            rp = json.load(f)
        res = par.run_jobs(target, [{'replay': rp['replay'], '_env': {'PYTHONHASHSEED': rp['replay'].get('hashseed', 0)}}], 1, timeout=300)
    else:
        rng = random.Random(check.seed)
        total = int((4000 if check.thorough else 320) * check.scale)
        cases = [gen_case(rng) for _ in range(total)]
        for n in ([65, 70, 130] if not check.thorough else [10, 63, 64, 65, 66, 70, 100, 127, 128, 129, 130, 200, 250]):
            cases.insert(rng.randrange(len(cases)), {'mode': 'many-origins', 'origins': n})
        nj = check.jobs * (4 if check.thorough else 1)
        # one hash seed per job: the order in which the scraper hands over the links of a page varies with it
        jobs = [{'cases': [dict(c, hashseed=i) for c in cases[i::nj]], '_env': {'PYTHONHASHSEED': i}} for i in range(nj) if cases[i::nj]]
        res = par.run_jobs(target, jobs, check.jobs, timeout=7200 if check.thorough else 900)
    for r in res:
        if '_error' in r:
            check.note_inconclusive('worker: ' + r['_error'] + ' ' + r.get('_stderr', '')[-400:])
        else:
            check.merge(r)
    check.finish(required_counters=() if check.args.replay else (
        'crawls_judged', 'robots_first_confirmed', 'requests_checked_against_robots'))


if __name__ == '__main__':
    main()
