'''C02 monitor B - end-to-end crawls in which pages, redirects and robots.txt offer out-of-scope URLs.

Every request line the harness servers receive must be either /robots.txt of an origin being visited or
satisfy harness.refscope for (requested URL, record of the originating row); for hops of a redirect
chain only the span-hosts rule may fail, and only with strong redirects enabled.
'''
import os
import random
import shutil
import tempfile

from harness import common, par, refscope, sitegen


def gen_case(rng):
    scenario = rng.choice(['links', 'links', 'redirect-other-host', 'redirect-rejected-path', 'redirect-above-parent',
                           'robots-redirect-other-host', 'requisite-other-host', 'start-url-redirects-above-parent',
                           'rejected-start-url', 'rerun-same-database'])
    opts = {'recursive': True, 'level': rng.choice([0, 2, 3]), 'page_requisites': rng.random() < 0.6,
            'page_requisites_level': 5,
            'no_parent': scenario in ('redirect-above-parent', 'start-url-redirects-above-parent') or rng.random() < 0.2,
            'reject_regex': r'(forbidden|\.zip$)' if scenario in ('redirect-rejected-path', 'rejected-start-url') or rng.random() < 0.3 else None,
            'accept_regex': None, 'tries': 20, 'span_hosts': False,
            'span_hosts_allow': rng.choice([[], [], ['page-requisites'], ['linked-pages']]),
            'strong_redirects': rng.random() < 0.6,
            'robots': scenario.startswith('robots') or scenario == 'rejected-start-url' or rng.random() < 0.2,
            'concurrent': rng.choice([1, 2, 4])}
    return {'scenario': scenario, 'opts': opts, 'site_seed': rng.randrange(1 << 30), 'delay_seed': rng.randrange(1 << 30)}


def build(case):
    rng = random.Random(case['site_seed'])
    site = sitegen.generate(rng, host='a.test', n_pages=rng.choice([4, 6, 9]), redirects=False,
                            extra_hosts=['b.test'] if case['scenario'] in ('links',) else (), frames=True, bases=True)
    html = [p for p in site.pages.values() if p.kind == 'html' and sitegen.split_url(p.url)[1] == 'a.test']
    sc = case['scenario']
    other = sitegen.Site('b.test')

    def add_redirect(path, location, status=None):
        r = site.add(sitegen.Page('http://a.test' + path, 'redirect'))
        r.status = status or rng.choice([301, 302, 303, 307, 308])
        r.location = (location, location if '://' in location else 'http://a.test' + location)
        sitegen.add_link(rng, site, rng.choice(html).url, r.url, 'a', ['abs-path', 'absolute'])
        return r
    if sc == 'redirect-other-host':
        add_redirect('/go-out', 'http://b.test/landing.html')
        other.add(sitegen.Page('http://b.test/landing.html', 'leaf'))
    elif sc == 'redirect-rejected-path':
        add_redirect('/go-forbidden', '/forbidden/area.html')
        site.add(sitegen.Page('http://a.test/forbidden/area.html', 'leaf'))
        add_redirect('/go-zip', 'http://a.test/files/big.zip')
        site.add(sitegen.Page('http://a.test/files/big.zip', 'img'))
    elif sc == 'redirect-above-parent':
        # start inside /d1/sub/ ; redirect leads above it
        start = sitegen.Page('http://a.test/d1/sub/start.html', 'html')
        site.add(start)
        site.start = start.url
        start.links.append({'href': '/d1/sub/hop', 'kind': 'a', 'target': 'http://a.test/d1/sub/hop', 'spelling': 'abs-path'})
        r = site.add(sitegen.Page('http://a.test/d1/sub/hop', 'redirect'))
        r.status = 302
        r.location = ('/d1/above.html', 'http://a.test/d1/above.html')
        site.add(sitegen.Page('http://a.test/d1/above.html', 'leaf'))
    elif sc == 'start-url-redirects-above-parent':
        # the start URL itself answers with a redirect that leads out of its directory
        start = site.add(sitegen.Page('http://a.test/d1/sub/start', 'redirect'))
        start.status = rng.choice([301, 302, 307])
        start.location = ('/d1/private.html', 'http://a.test/d1/private.html')
        site.add(sitegen.Page('http://a.test/d1/private.html', 'leaf'))
        site.start = start.url
    elif sc == 'rerun-same-database':
        # history: a first run meets a link to another host (not followed); a second run on the same database starts from
        # a page that also links to that host
        ext = sitegen.Page('http://b.test/first-run-link.html', 'leaf')
        other.add(ext)
        site.pages[site.start].links.append({'href': ext.url, 'kind': 'a', 'target': ext.url, 'spelling': 'absolute'})
        second = site.add(sitegen.Page('http://a.test/second-start.html', 'html'))
        ext2 = sitegen.Page('http://b.test/second-run-link.html', 'leaf')
        other.add(ext2)
        second.links.append({'href': ext2.url, 'kind': 'a', 'target': ext2.url, 'spelling': 'absolute'})
    elif sc == 'requisite-other-host':
        img = sitegen.Page('http://b.test/pic.png', 'img')
        other.add(img)
        rng.choice(html).links.append({'href': 'http://b.test/pic.png', 'kind': 'img', 'target': img.url, 'spelling': 'absolute'})
        pg = sitegen.Page('http://b.test/page.html', 'leaf')
        other.add(pg)
        rng.choice(html).links.append({'href': 'http://b.test/page.html', 'kind': 'a', 'target': pg.url, 'spelling': 'absolute'})
    for u, p in list(site.pages.items()):
        if sitegen.split_url(u)[1] == 'b.test':
            other.add(p)
    return site, other


def argv_for(opts, start, db, prefix):
    argv = [start, '-r', '--level', str(opts['level']) if opts['level'] else 'inf', '--database', db, '-P', prefix,
            '--concurrent', str(opts['concurrent']), '--delete-after', '--quiet', '--waitretry', '0', '--tries', '2']
    if not opts['robots']:
        argv.append('--no-robots')
    if opts['page_requisites']:
        argv.append('--page-requisites')
    if opts['no_parent']:
        argv.append('--no-parent')
    if opts['reject_regex']:
        argv += ['--reject-regex', opts['reject_regex']]
    if opts['span_hosts_allow']:
        argv += ['--span-hosts-allow', ','.join(opts['span_hosts_allow'])]
    if not opts['strong_redirects']:
        argv.append('--no-strong-redirects')
    return argv


def run_case(case, part):
    from harness import servers, crawl
    site, other = build(case)
    opts = case['opts']
    sc = case['scenario']

    def robots(req):
        host = req['host'].lower().replace(':80', '')
        if sc == 'robots-redirect-other-host' and host == 'a.test':
            return {'status': 301, 'reason': 'Moved', 'headers': [('Location', 'http://b.test/robots-elsewhere.txt')], 'body': b''}
        return {'status': 200, 'headers': [('Content-Type', 'text/plain')], 'body': b'User-agent: *\nDisallow:\n'}
    ha = sitegen.make_handler(site, robots=robots)
    hb = sitegen.make_handler(other, robots=robots)

    def handler(req):
        host = req['host'].lower().replace(':80', '')
        if host == 'b.test':
            if req['target'] == '/robots-elsewhere.txt':
                return {'status': 200, 'headers': [('Content-Type', 'text/plain')], 'body': b'User-agent: *\nDisallow:\n'}
            return hb(req)
        return ha(req)
    addrs, port = servers.allocate_addresses(2)
    srv = servers.Server(handler, addrs, port, delay_seed=case['delay_seed'],
                         max_delay=0.003 if opts['concurrent'] > 1 else 0).start()
    tmp = tempfile.mkdtemp(prefix='vc02')
    try:
        db = os.path.join(tmp, 'crawl.db')
        argv = argv_for(opts, site.start, db, tmp)
        if sc == 'rejected-start-url':
            # a second start URL, on another host, that the reject rule refuses: nothing of that host may be contacted, not
            # even its robots.txt
            argv.insert(1, 'http://b.test/forbidden/start.html')
        res = crawl.run_app(argv, {'a.test': addrs[0], 'b.test': addrs[1]})
        if sc == 'rerun-same-database' and not res['crashed']:
            argv2 = argv_for(opts, 'http://a.test/second-start.html', db, tmp)
            res = crawl.run_app(argv2, {'a.test': addrs[0], 'b.test': addrs[1]})
        rows = crawl.read_table(db) if os.path.exists(db) else []
        log = srv.log.snapshot()
    finally:
        srv.stop()
        shutil.rmtree(tmp, ignore_errors=True)
    part.evaluations += 1
    part.count('crawl_scenario_' + sc)
    replay = dict(case, crawl=True)
    if res['crashed']:
        part.violation('crawl-crashed/' + sc, {'exception': res['exception'], 'log': res['log'][-500:]}, replay)
        return
    rowmap = {r['url']: r for r in rows}
    start_hosts = {'a.test'}
    all_pages = dict(site.pages)
    all_pages.update(other.pages)
    redirect_src = {}
    for p in all_pages.values():
        if p.kind == 'redirect':
            redirect_src.setdefault(p.location[1], []).append(p.url)
    requested = set()
    addr_host = {addrs[0]: 'a.test', addrs[1]: 'b.test'}
    for e in log:
        # identity of the contacted origin = the address the request arrived on (a Host field that names another
        # host is C16's subject and only counted here)
        host = addr_host[e['addr']]
        if e['host'].lower().replace(':80', '') != host:
            part.count('crawl_requests_with_host_field_of_other_origin')
        url = 'http://' + host + e['target']
        requested.add(url)
    for e in log:
        host = addr_host[e['addr']]
        url = 'http://' + host + e['target']
        part.count('crawl_requests_checked')
        if e['target'] == '/robots.txt':
            if not opts['robots']:
                part.violation('robots-txt-requested-with-robots-off', {'host': host}, replay)
            elif host not in start_hosts and not any(sitegen.split_url(u)[1] == host for u in requested
                                                    if not u.endswith('/robots.txt')):
                part.violation('robots-txt-of-unvisited-origin-requested', {'host': host}, replay)
            continue
        row = rowmap.get(url)
        if row is not None:
            ok, rules = refscope.verdict(url, {'level': row['level'], 'inline_level': row['inline_level'],
                                               'parent_url': row['parent'], 'root_url': row['root'], 'try_count': 0},
                                         opts, start_hosts)
            if not ok:
                failing = sorted(k for k, v in rules.items() if not v)
                part.violation('out-of-scope-row-requested/{}/{}'.format('+'.join(failing), sc),
                               {'url': url, 'row': row, 'rules': rules}, replay)
            continue
        # not a row: must be the hop of a redirect whose source was requested
        sources = [s for s in redirect_src.get(url, []) if s in requested]
        robots_hop = e['target'] == '/robots-elsewhere.txt'
        if robots_hop:
            # target of a redirect of /robots.txt: the same rules as for any redirect hop apply
            src_row = {'level': 0, 'inline_level': None, 'parent': None, 'root': None}
            origin = 'robots-txt-redirect'
        elif sources and sources[0] in rowmap:
            src_row = rowmap[sources[0]]
            origin = 'redirect'
        else:
            part.violation('request-without-row-or-redirect/' + sc, {'url': url}, replay)
            continue
        ok, rules = refscope.verdict(url, {'level': src_row['level'], 'inline_level': src_row['inline_level'],
                                           'parent_url': src_row['parent'], 'root_url': src_row['root'], 'try_count': 0},
                                     opts, start_hosts, is_redirect=opts['strong_redirects'])
        if not ok:
            failing = sorted(k for k, v in rules.items() if not v)
            if origin == 'robots-txt-redirect':
                # mechanism: RobotsTxtChecker.fetch_robots_txt follows redirects of /robots.txt itself and never
                # consults the URL filters, whatever rule the target fails
                part.violation('robots-txt-redirect-followed-without-consulting-filters',
                               {'url': url, 'rules': rules, 'strong_redirects': opts['strong_redirects']}, replay)
                continue
            part.violation('{}-hop-out-of-scope/{}/strong-redirects-{}'.format(
                origin, '+'.join(failing), 'on' if opts['strong_redirects'] else 'off'),
                {'url': url, 'rules': rules, 'source': sources[:1]}, replay)
        else:
            part.count('crawl_redirect_hops_in_scope')
    # the link records the filters were evaluated with must describe the real discovery (depth, inline depth, parent,
    # root): a record that claims an embedding where the page merely links (or a smaller depth) defeats the rules
    starts = {site.start} | ({'http://b.test/forbidden/start.html'} if sc == 'rejected-start-url' else set()) | \
        ({'http://a.test/second-start.html'} if sc == 'rerun-same-database' else set())
    for url, row in rowmap.items():
        if url in starts:
            # a start URL is its own root (and parent) at depth 0
            if row['root'] != url or row['level'] != 0 or row['inline_level']:
                part.violation('row-metadata-wrong/start-url', {'row': row}, replay)
            continue
        if url in site.optional:
            # the URL written in a <base> element (the crawler treats it as a link of the page; the site model does not)
            part.count('crawl_base_element_urls_recorded')
            continue
        problems = sitegen.row_metadata_problems(url, row, rowmap, all_pages, row['root'] if row['root'] in starts else site.start)
        if problems:
            part.violation('row-metadata-wrong/' + '+'.join(problems), {'row': row, 'start': site.start}, replay)
        else:
            part.count('crawl_row_metadata_consistent')
    if 'iframe' in site.features:
        part.count('crawls_with_framed_documents')
    part.nontrivial_case('crawl/{}/{}'.format(sc, common.jhash(case['opts'])))


def worker(job):
    import compat
    compat.install()
    import logging
    logging.disable(logging.CRITICAL)
    part = common.Part()
    cases = [job['replay']] if 'replay' in job else job['cases']
    for case in cases:
        run_case(case, part)
    return part.dump()


def run(check):
    rng = random.Random(check.seed + 77)
    total = int((600 if check.thorough else 96) * check.scale)
    cases = [gen_case(rng) for _ in range(total)]
    nj = check.jobs
    # one hash seed per job: the order in which the scraper hands over the links of a page varies with it
    jobs = [{'cases': [dict(c, hashseed=i) for c in cases[i::nj]], '_env': {'PYTHONHASHSEED': i}} for i in range(nj) if cases[i::nj]]
    return par.run_jobs('checks.c02b_crawl:worker', jobs, check.jobs, timeout=3600 if check.thorough else 600)
