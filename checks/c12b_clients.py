'''C12 monitor B - the pool's real clients leave it quiescent, whatever the server does.

Monitor A (c12_pool) drives the pool with model clients on the controlled scheduler.  Here the clients are
wpull's own: HTTP Client sessions, WebClient sessions (redirects, login retry), the robots.txt checker,
directly and through a relaying / tunnelling proxy pool.  Each case is a short sequence of fetches that share
one pool; peers answer with well-formed, hostile or broken exchanges, connects fail, fetches are cancelled.
When every fetch has finished (normally or with an error) the pool is inspected the way monitor A does at
quiescence: nothing checked out, no waiter counted, idle host entries dropped, and a final probe fetch per
host still obtains a connection.
'''
import asyncio
import io
import random

from harness import common, netsim

OK = b'HTTP/1.1 200 OK\r\nContent-Length: 2\r\n\r\nok'
BEHAVIOURS = ['ok', 'ok', 'ok-close', 'redirect', 'garbage', 'reset-before-header', 'eof-immediately', 'reset-mid-body',
              'connect-refused', 'challenge', 'hang-cancelled', 'short-body-eof', 'bad-chunk', 'connect-timeout']
KINDS = ['http', 'web', 'web', 'robots', 'generic']
POOLS = ['direct', 'direct', 'direct', 'proxy', 'tunnel']


def gen_case(rng):
    pool = rng.choice(POOLS)
    ops = []
    for _ in range(rng.choice([1, 2, 3, 5, 8])):
        ops.append({'kind': rng.choice(KINDS), 'behaviour': rng.choice(BEHAVIOURS), 'host': rng.choice(['a.test', 'a.test', 'b.test', 'd.test']),
                    'login': rng.random() < 0.3})
    return {'pool': pool, 'ops': ops, 'limit': rng.choice([1, 1, 2, 6]), 'seed': rng.randrange(1 << 30)}


def script_for(op, rng):
    '''Responses (in order) the peer gives to this operation's requests, and connect failures to queue first.'''
    b = op['behaviour']
    keep = {'pieces': [OK], 'then': 'keep'}
    if op['kind'] == 'generic':
        # a client that only checks a connection out and in again through the pool's general interface (no request)
        return [], ([ConnectionRefusedError(111, 'refused')] if b == 'connect-refused' else [TimeoutError('connect timed out')] if b == 'connect-timeout' else [])
    if b == 'ok':
        return [keep], []
    if b == 'ok-close':
        return [{'pieces': [OK], 'then': 'eof'}], []
    if b == 'redirect':
        return [{'pieces': [b'HTTP/1.1 302 Found\r\nLocation: /next\r\nContent-Length: 0\r\n\r\n'], 'then': rng.choice(['keep', 'eof'])}, keep], []
    if b == 'garbage':
        return [{'pieces': [b'garbage\r\n\r\n'], 'then': 'eof'}], []
    if b == 'reset-before-header':
        return [{'pieces': [b'HTTP/1.1 200 OK\r\n'], 'then': 'keep', 'fault': {'at': 0, 'exc': ConnectionResetError(104, 'reset')}}], []
    if b == 'eof-immediately':
        return [{'pieces': [], 'then': 'eof'}], []
    if b == 'reset-mid-body':
        return [{'pieces': [b'HTTP/1.1 200 OK\r\nContent-Length: 50\r\n\r\n', b'partial'], 'then': 'keep',
                 'fault': {'at': 2, 'exc': ConnectionResetError(104, 'reset')}}], []
    if b == 'short-body-eof':
        return [{'pieces': [b'HTTP/1.1 200 OK\r\nContent-Length: 50\r\n\r\nshort'], 'then': 'eof'}], []
    if b == 'bad-chunk':
        return [{'pieces': [b'HTTP/1.1 200 OK\r\nTransfer-Encoding: chunked\r\n\r\nzz\r\nxx\r\n0\r\n\r\n'], 'then': 'keep'}], []
    if b == 'connect-refused':
        return [keep], [ConnectionRefusedError(111, 'refused')]
    if b == 'connect-timeout':
        return [keep], [TimeoutError('connect timed out')]
    if b == 'challenge':
        return [{'pieces': [b'HTTP/1.1 401 Unauthorized\r\nWWW-Authenticate: Basic realm="r"\r\nContent-Length: 0\r\n\r\n'], 'then': 'keep'},
                keep], []
    if b == 'hang-cancelled':
        return [{'pieces': [b'HTTP/1.1 200 OK\r\nContent-Length: 50\r\n\r\nsome'], 'then': 'hang'}], []
    raise AssertionError(b)


class Peer(netsim.HTTPScriptPeer):
    def auto_response(self, conn, raw):
        if raw.startswith(b'CONNECT '):
            return {'pieces': [b'HTTP/1.1 200 Connection established\r\n\r\n'], 'then': 'keep'}
        if self.index >= len(self.responses):
            # more requests than the scenario planned (e.g. a retry): answer plainly
            return {'pieces': [OK], 'then': 'keep'}
        return None


def pool_state(pool):
    out = {}
    for key, hp in pool.host_pools.items():
        out[str(key)] = {'ready': len(hp.ready), 'busy': len(hp.busy), 'waiters': pool._host_pool_waiters.get(key, 0),
                         'locked': hp._lock.locked(), 'dead_ready': sum(1 for c in hp.ready if c.closed())}
    return out


def run_case(case, part):
    from wpull.network.pool import ConnectionPool
    from wpull.proxy.client import HTTPProxyConnectionPool
    from wpull.protocol.http.client import Client
    from wpull.protocol.http.web import WebClient
    from wpull.protocol.http.request import Request
    from wpull.protocol.http.robots import RobotsTxtChecker
    from wpull.robotstxt import RobotsTxtPool
    rng = random.Random(case['seed'])
    result = {'outcomes': []}
    replay = case

    async def main():
        net = netsim.Net().install()
        try:
            peer = Peer([])
            net.default_peer = peer
            resolver = netsim.StaticResolver({'a.test': '127.0.4.1', 'b.test': '127.0.4.2', 'c.test': '127.0.4.3',
                                               # a host with an A and an AAAA record: both are tried at once, the faster one is used
                                               'd.test': ['127.0.4.4', 'fd00::4']})
            slow = {'family': rng.choice(['v6', 'v6', 'v4']), 'turns': rng.choice([0, 2, 12, 40])}

            async def gate(host, port):
                if (':' in str(host)) == (slow['family'] == 'v6'):
                    for _ in range(slow['turns']):
                        await asyncio.sleep(0)
                await asyncio.sleep(0)
            net.connect_gate = gate
            if case['pool'] == 'direct':
                pool = ConnectionPool(resolver=resolver, max_host_count=case['limit'])
            else:
                pool = HTTPProxyConnectionPool(('127.0.4.9', 3128), resolver=resolver, max_host_count=case['limit'])
            http_client = Client(connection_pool=pool)
            web_client = WebClient(http_client=http_client)
            scheme = 'https' if case['pool'] == 'tunnel' else 'http'

            async def do_op(i, op):
                url = '{}://{}/op{}'.format(scheme, op['host'], i)
                if op['kind'] == 'http':
                    session = http_client.session()
                    with session:
                        await session.start(Request(url))
                        await session.download(file=io.BytesIO())
                elif op['kind'] == 'generic':
                    # the interface every pool shares: acquire(host, port, use_ssl) -> connection, release(connection)
                    connection = await pool.acquire(op['host'], 443 if scheme == 'https' else 80, scheme == 'https')
                    if connection is None:
                        result['acquire_returned_nothing'] = True
                        return
                    await pool.release(connection)
                elif op['kind'] == 'web':
                    request = Request(url)
                    if op['login']:
                        request.username, request.password = 'u', 'p'
                    session = web_client.session(request)
                    with session:
                        n = 0
                        while not session.done() and n < 6:
                            n += 1
                            await session.start()
                            await session.download(file=io.BytesIO())
                else:
                    checker = RobotsTxtChecker(web_client=web_client, robots_txt_pool=RobotsTxtPool())
                    request = Request(url)
                    request.fields['User-Agent'] = 'wpull'
                    import tempfile
                    # (the checker truncates the file by name between redirect hops)
                    with tempfile.NamedTemporaryFile('w+b', prefix='vc12robots') as f:
                        await checker.can_fetch(request, file=f)

            for i, op in enumerate(case['ops']):
                responses, connect_failures = script_for(op, rng)
                peer.responses.extend(responses)
                for exc in connect_failures:
                    net.connect_failures.append(exc)
                task = asyncio.ensure_future(do_op(i, op))
                cancelled = False
                for step in range(3000):
                    if task.done():
                        break
                    await asyncio.sleep(0)
                    if op['behaviour'] == 'hang-cancelled' and step == 60:
                        task.cancel()
                        cancelled = True
                if not task.done():
                    task.cancel()
                    try:
                        await task
                    except BaseException:
                        pass
                    result['outcomes'].append('STUCK')
                    result['stuck_at'] = i
                    result['state'] = pool_state(pool)
                    return
                try:
                    task.result()
                    result['outcomes'].append('ok')
                except asyncio.CancelledError:
                    result['outcomes'].append('cancelled' if cancelled else 'CancelledError')
                except Exception as e:
                    result['outcomes'].append(type(e).__name__)
                    import traceback
                    result.setdefault('errors', []).append(''.join(traceback.format_exception(type(e), e, e.__traceback__))[-600:])
                # whatever the script still holds for this operation is dropped (the next one starts clean)
                del peer.responses[peer.index:]
                net.connect_failures.clear()
            # ---- every client has finished: settle like the next acquire would, then look
            for _ in range(50):
                await asyncio.sleep(0)
            settle = asyncio.ensure_future(_settle(pool))
            for _ in range(2000):
                if settle.done():
                    break
                await asyncio.sleep(0)
            if not settle.done():
                settle.cancel()
                result['settle'] = 'blocked'
                result['state'] = pool_state(pool)
                return
            if settle.exception() is not None:
                result['settle'] = 'raised ' + repr(settle.exception())
            result['state'] = pool_state(pool)
            # ---- probe: each host must still hand out a connection
            probes = {}
            for host in ('a.test', 'b.test'):
                peer.responses.append({'pieces': [OK], 'then': 'keep'})
                t = asyncio.ensure_future(do_op(900, {'kind': 'http', 'host': host, 'login': False}))
                for _ in range(3000):
                    if t.done():
                        break
                    await asyncio.sleep(0)
                if not t.done():
                    t.cancel()
                    try:
                        await t
                    except BaseException:
                        pass
                    probes[host] = 'blocked'
                else:
                    probes[host] = 'ok' if t.exception() is None else type(t.exception()).__name__
                del peer.responses[peer.index:]
            result['probes'] = probes
            # every check-in has been processed; the servers now close their idle keep-alive connections (nobody is at an
            # await point of theirs)
            await pool._process_no_wait_releases()
            for sc in net.connections:
                if not sc.client_closed:
                    try:
                        sc.feed_eof()
                    except Exception:
                        pass
            for _ in range(20):
                await asyncio.sleep(0)
            # one more healthy fetch from a host nobody used: its check-in is the pool's occasion to sweep hosts whose idle
            # connections died in the meantime
            peer.responses.append({'pieces': [OK], 'then': 'keep'})
            t = asyncio.ensure_future(do_op(901, {'kind': 'http', 'host': 'c.test', 'login': False}))
            for _ in range(3000):
                if t.done():
                    break
                await asyncio.sleep(0)
            if t.done() and t.exception() is None:
                for _ in range(50):
                    await asyncio.sleep(0)
                result['state_after_sweep'] = pool_state(pool)
            elif not t.done():
                t.cancel()
            try:
                http_client.close()
            except Exception:
                pass
            # the pool is closed: every transport that was ever opened towards a server must have been closed from this
            # side by now (one that the pool forgot while it was still open - an idle connection the server had hung up
            # on, the slower of two dual-stack connections - is owned by nobody and can never be closed)
            try:
                pool.close()
            except Exception as e:
                result['pool_close_error'] = repr(e)
            for _ in range(200):
                await asyncio.sleep(0)
            result['left_open'] = [{'id': c.id, 'address': '{}:{}'.format(c.host, c.port), 'server_hung_up': bool(c.peer_closed)}
                                   for c in net.connections if not c.client_closed]
            result['opened'] = len(net.connections)
        finally:
            net.uninstall()
    netsim.run(main(), timeout=120)
    part.evaluations += 1
    if result.get('errors') and len(part.samples) < 3:
        part.sample({'errors': result['errors'][:2]})
    kinds = '+'.join(sorted(set(op['kind'] for op in case['ops'])))
    behaviours = sorted(set(op['behaviour'] for op in case['ops']))
    part.nontrivial_case('clients/{}/{}/{}'.format(case['pool'], kinds, '+'.join(behaviours)))
    part.count('real_client_operations', len(result['outcomes']))
    for o in result['outcomes']:
        part.count('real_client_outcome_' + ('ok' if o == 'ok' else 'error'))
    last = case['ops'][len(result['outcomes']) - 1] if result['outcomes'] else {'kind': '?', 'behaviour': '?'}
    if 'stuck_at' in result:
        part.violation('real-client-blocked-forever/{}/{}'.format(case['pool'], last['kind']),
                       {'outcomes': result['outcomes'], 'state': result.get('state'), 'ops': case['ops']}, replay)
        return
    part.count('transports_opened', result.get('opened', 0))
    if result.get('left_open'):
        part.violation('transport-left-open-after-the-pool-was-closed/' + ('server-had-hung-up' if all(x['server_hung_up'] for x in result['left_open'])
                                                                             else 'live-connection') + '/' + case['pool'],
                       {'left_open': result['left_open'][:4], 'outcomes': result['outcomes'], 'ops': case['ops']}, replay)
    elif 'left_open' in result:
        part.count('all_transports_closed_after_pool_close')
    if result.get('acquire_returned_nothing'):
        part.violation('pool-acquire-returned-no-connection/' + case['pool'], {'state': result.get('state'), 'ops': case['ops']}, replay)
    if result.get('settle'):
        part.violation('real-clients-settle-' + result['settle'].split(' ')[0] + '/' + case['pool'],
                       {'settle': result['settle'], 'state': result.get('state')}, replay)
        return
    culprit = _culprit(case, result)
    for key, st in (result.get('state') or {}).items():
        if st['busy']:
            part.violation('real-client-left-connection-checked-out/{}/{}'.format(case['pool'], culprit),
                           {'host_key': key, 'state': st, 'outcomes': result['outcomes'], 'ops': case['ops']}, replay)
        elif st['waiters']:
            part.violation('real-client-left-waiter-count/{}/{}'.format(case['pool'], culprit),
                           {'host_key': key, 'state': st, 'outcomes': result['outcomes']}, replay)
    for key, st in (result.get('state_after_sweep') or {}).items():
        if 'c.test' in key:
            continue
        if not st['busy'] and not st['waiters'] and st['dead_ready'] == st['ready']:
            # nothing checked out, nobody waiting, no live idle connection: the entry is bookkeeping for an idle host
            part.violation('real-client-idle-host-entry-not-dropped/{}/{}'.format(case['pool'], 'only-dead-connections' if st['ready'] else 'empty'),
                           {'host_key': key, 'state': st, 'outcomes': result['outcomes'], 'ops': case['ops']}, replay)
        else:
            part.count('idle_host_entries_with_live_connections_kept')
    if 'state_after_sweep' in result:
        part.count('sweeps_observed')
    if not any(st['busy'] or st['waiters'] for st in (result.get('state') or {}).values()):
        part.count('real_client_sequences_left_pool_quiescent')
    for host, p in (result.get('probes') or {}).items():
        if p == 'blocked':
            part.violation('probe-fetch-blocked-after-clients-finished/{}/{}'.format(case['pool'], culprit),
                           {'host': host, 'state': result.get('state'), 'outcomes': result['outcomes'], 'ops': case['ops']}, replay)
        else:
            part.count('probe_fetches_served')


async def _settle(pool):
    # (only what the next acquire would do anyway; the sweep of idle hosts is left to the pool's own check-ins)
    await pool._process_no_wait_releases()


def _culprit(case, result):
    '''Coarse mechanism key: kinds and behaviours of the operations that ended with an error.'''
    bad = sorted(set('{}:{}'.format(op['kind'], op['behaviour']) for op, o in zip(case['ops'], result['outcomes']) if o != 'ok'))
    return '+'.join(bad[:3]) or 'no-failed-operation'
