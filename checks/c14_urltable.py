'''C14 - the URL table behaves as a keyed set with a status state machine.

Model-based runtime monitor: generated operation histories run against the real SQLiteURLTable
(in memory and on disk, directly and through URLTableHookWrapper, with close/reopen steps); after
every step return values and the full table contents are compared with a dict reference model.
'''
import json
import os
import random
import shutil
import tempfile

from harness import common, par

STATUSES = ['todo', 'in_progress', 'done', 'error', 'skipped']
LINK_TYPES = [None, 'html', 'css', 'javascript', 'media', 'sitemap', 'file', 'directory']
FIELDS = ('status', 'try_count', 'level', 'inline_level', 'parent_url', 'root_url', 'link_type', 'priority',
          'post_data', 'status_code', 'filename')


def gen_url(rng, pool):
    if pool and rng.random() < 0.55:
        return rng.choice(pool)
    host = rng.choice(['a.test', 'b.test', 'A.TEST', 'xn--bcher-kva.test', '10.0.0.1', '[::1]', 'a.test:8080'])
    path = '/' + '/'.join(rng.choice(['x', 'y', 'z', 'é', '%7e', 'a b', '..', '', 'p?q', "it's", '"q"', '%00'])
                          for _ in range(rng.randrange(0, 3)))
    url = rng.choice(['http', 'https', 'ftp']) + '://' + host + path + rng.choice(['', '', '?k=v', '#frag'])
    pool.append(url)
    return url


class Model(object):
    def __init__(self):
        self.rows = {}
        self.order = []
        self.visits = {}
        self.hostnames = set()

    def add(self, url, props, data, hostname):
        if url in self.rows:
            return False
        row = {f: None for f in FIELDS}
        row.update(status='todo', try_count=0, level=0, priority=0)
        if props is None:
            row['root_url'] = url
            row['parent_url'] = url
        else:
            for k, v in props.items():
                if v is not None:
                    row[k] = v
        if data:
            for k, v in data.items():
                if v is not None:
                    row[k] = v
        self.rows[url] = row
        self.order.append(url)
        self.hostnames.add(hostname)
        return True


def make_props(rng, pool, uniform=None):
    '''dict of property values; `uniform` = the set of keys every row of the batch sets (None: random subset)'''
    keys = {'level', 'inline_level', 'parent_url', 'root_url', 'link_type', 'status', 'try_count', 'priority'}
    if uniform is not None:
        chosen = set(uniform)
    else:
        chosen = set(k for k in keys if rng.random() < 0.5)
    # API precondition (every caller in wpull obeys it): a properties object names parent and root URL
    chosen.update(['parent_url', 'root_url'])
    p = {}
    for k in chosen:
        if k == 'level':
            p[k] = rng.randrange(0, 5)
        elif k == 'inline_level':
            p[k] = rng.randrange(1, 4)
        elif k in ('parent_url', 'root_url'):
            p[k] = gen_url(rng, pool)
        elif k == 'link_type':
            p[k] = rng.choice(LINK_TYPES[1:])
        elif k == 'status':
            p[k] = rng.choice(STATUSES)
        elif k == 'try_count':
            p[k] = rng.randrange(0, 4)
        elif k == 'priority':
            p[k] = rng.randrange(-2, 3)
    return p


def gen_history(rng, n_ops, mixed_batches):
    pool = []
    ops = []
    for _ in range(n_ops):
        r = rng.random()
        if r < 0.3:
            batch = []
            uniform = None
            if not mixed_batches:
                uniform = set(k for k in ('level', 'inline_level', 'parent_url', 'root_url', 'link_type')
                              if rng.random() < 0.6)
                # columns with NOT NULL defaults are either set by every row of a batch or by none
                for k in ('status', 'try_count', 'priority'):
                    if rng.random() < 0.2:
                        uniform.add(k)
            no_props_batch = rng.random() < 0.2
            for i in range(rng.choice([1, 1, 2, 3, 6])):
                url = gen_url(rng, pool)
                if no_props_batch:
                    props = None
                else:
                    props = make_props(rng, pool, uniform)
                    if uniform is not None and 'inline_level' in uniform and rng.random() < 0.4:
                        props.pop('inline_level')       # nullable column: absent in some rows is fine
                data = {'post_data': rng.choice([None, None, 'a=1'])}
                batch.append({'url': url, 'props': props, 'data': data})
            if mixed_batches and len(batch) >= 2 and not no_props_batch and rng.random() < 0.5:
                # a URL added with an all-default properties object (no parent, no root: what ItemSession.add_url(url) sends)
                # in one call with links that name theirs
                batch[rng.randrange(1, len(batch))]['props'] = {}
            if rng.random() < 0.08:
                # a link that cannot be parsed among the others: the whole call is refused and nothing of it may stick
                # (the good URLs of the batch are added again later)
                batch.insert(rng.randrange(len(batch) + 1), {'url': rng.choice(['http://[broken/x', 'http://h:99999/', 'http://bad host/']),
                                                             'props': batch[0]['props'], 'data': {'post_data': None}})
            if rng.random() < 0.006:
                # a batch larger than any internal chunk size (pages with hundreds of links are stored in one call of up to
                # 1000), mostly new URLs, the known ones at either end
                n_big = rng.choice([499, 500, 501, 999, 1000, 1102])
                serial = rng.randrange(1 << 30)
                big = [{'url': 'http://big.test/%d/%d' % (serial, i), 'props': batch[0]['props'], 'data': {'post_data': None}}
                       for i in range(n_big)]
                batch = batch + big if rng.random() < 0.5 else big + batch
            ops.append({'op': 'add_many', 'batch': batch})
        elif r < 0.45:
            ops.append({'op': 'check_out', 'status': rng.choice(['todo', 'todo', 'error', 'done', 'in_progress']),
                        'level': rng.choice([None, None, 0, 1, 2, 3])})
        elif r < 0.6:
            ops.append({'op': 'check_in', 'url': gen_url(rng, pool), 'status': rng.choice(STATUSES),
                        'increment': rng.random() < 0.7,
                        'result': rng.choice([None, {'status_code': 200, 'filename': None},
                                              {'status_code': 404, 'filename': 'f.html'},
                                              {'status_code': None, 'filename': 'g'}])})
        elif r < 0.66:
            ops.append({'op': 'update_one', 'url': gen_url(rng, pool),
                        'values': rng.choice([{'level': 7}, {'status_code': 301}, {'filename': 'x'},
                                              {'inline_level': 2, 'priority': 5}])})
        elif r < 0.72:
            ops.append({'op': 'release'})
        elif r < 0.78:
            ops.append({'op': 'remove_many', 'urls': [gen_url(rng, pool) for _ in range(rng.choice([1, 2]))],
                        'form': rng.choice(['list', 'list', 'tuple', 'iterator', 'generator', 'keys'])})
        elif r < 0.83:
            ops.append({'op': 'add_visits', 'visits': [[gen_url(rng, pool), '<urn:uuid:%d>' % rng.randrange(50),
                                                       rng.choice(['AAAA', 'BBBB'])] for _ in range(rng.choice([1, 2]))]})
        elif r < 0.88:
            ops.append({'op': 'get_revisit_id', 'url': gen_url(rng, pool), 'digest': rng.choice(['AAAA', 'BBBB'])})
        elif r < 0.93:
            ops.append({'op': 'queries', 'url': gen_url(rng, pool)})
        else:
            ops.append({'op': 'reopen'})
    return ops


def run_history(history, part, replay):
    from wpull.database.sqltable import SQLiteURLTable
    from wpull.database.wrap import URLTableHookWrapper
    from wpull.database.base import AddURLInfo, NotFound
    from wpull.pipeline.item import URLProperties, URLData, URLResult, Status, LinkType
    from wpull.url import URLInfo
    tmp = None
    on_disk = history['on_disk']
    if on_disk:
        tmp = tempfile.mkdtemp(prefix='vc14')
        path = os.path.join(tmp, 'table.db')
    else:
        path = ':memory:'
    impl = SQLiteURLTable(path)
    table = URLTableHookWrapper(impl) if history['wrapped'] else impl
    model = Model()
    cls = '{}/{}'.format('disk' if on_disk else 'memory', 'wrapped' if history['wrapped'] else 'direct')
    interesting = False

    def to_props(p):
        if p is None:
            return None
        up = URLProperties()
        for k, v in p.items():
            if k == 'status':
                v = Status(v)
            elif k == 'link_type':
                v = LinkType(v)
            setattr(up, k, v)
        return up

    def plain(rec):
        return {f: (getattr(rec, f).value if hasattr(getattr(rec, f), 'value') else getattr(rec, f)) for f in FIELDS}

    def compare_all(step, op):
        got = {}
        for rec in table.get_all():
            if rec.url in got:
                part.violation('url-stored-twice/' + cls, {'url': rec.url, 'step': step}, replay)
            got[rec.url] = plain(rec)
        part.count('full_table_comparisons')
        if got != model.rows:
            missing = sorted(set(model.rows) - set(got))
            extra = sorted(set(got) - set(model.rows))
            diff = {u: {f: [got[u][f], model.rows[u][f]] for f in FIELDS if got[u][f] != model.rows[u][f]}
                    for u in got if u in model.rows and got[u] != model.rows[u]}
            what = 'missing' if missing else ('extra' if extra else 'fields:' + ','.join(sorted(set(
                f for d in diff.values() for f in d))))
            part.violation('table-differs-after/{}/{}'.format(op['op'], what),
                           {'step': step, 'op': op, 'missing': missing[:3], 'extra': extra[:3],
                            'diff[got,model]': dict(list(diff.items())[:3]), 'cls': cls}, replay)
            return False
        return True

    try:
        for step, op in enumerate(history['ops']):
            part.count('op_' + op['op'])
            name = op['op']
            if name == 'add_many':
                batch = [AddURLInfo(b['url'], to_props(b['props']),
                                    (lambda d: (setattr(d, 'post_data', b['data']['post_data']) or d))(URLData()))
                         for b in op['batch']]
                try:
                    added = list(table.add_many(batch))
                except ValueError:
                    part.count('add_many_rejected_unparseable')
                    continue
                expect_new = []
                for b in op['batch']:
                    present_before = b['url'] in model.rows
                    if present_before:
                        interesting = interesting or model.rows[b['url']]['status'] != 'todo'
                    if model.add(b['url'], b['props'], b['data'], URLInfo.parse(b['url']).hostname):
                        expect_new.append(b['url'])
                if sorted(added) != sorted(expect_new):
                    part.violation('add_many-newly-added-list-wrong/' + cls,
                                   {'step': step, 'returned': sorted(added), 'expected': sorted(expect_new)}, replay)
            elif name == 'check_out':
                candidates = [u for u, r in model.rows.items() if r['status'] == op['status']]
                if op['level'] is not None:
                    strict = [u for u in candidates if model.rows[u]['level'] < op['level']]
                    loose = [u for u in candidates if model.rows[u]['level'] <= op['level']]
                else:
                    strict = loose = candidates
                try:
                    rec = table.check_out(Status(op['status']), op['level'])
                    if rec.url not in loose:
                        part.violation('check_out-returned-wrong-url/' + cls,
                                       {'step': step, 'op': op, 'returned': rec.url,
                                        'model_row': model.rows.get(rec.url)}, replay)
                    else:
                        model.rows[rec.url]['status'] = 'in_progress'
                        part.count('check_out_hits')
                except NotFound:
                    if strict:
                        part.violation('check_out-NotFound-although-candidates-exist/' + cls,
                                       {'step': step, 'op': op, 'candidates': strict[:3]}, replay)
                    else:
                        part.count('check_out_notfound')
            elif name == 'check_in':
                res = None
                if op['result']:
                    res = URLResult()
                    res.status_code = op['result']['status_code']
                    res.filename = op['result']['filename']
                table.check_in(op['url'], Status(op['status']), increment_try_count=op['increment'], url_result=res)
                row = model.rows.get(op['url'])
                if row:
                    row['status'] = op['status']
                    if op['increment']:
                        row['try_count'] += 1
                    if op['result']:
                        for k, v in op['result'].items():
                            if v is not None:
                                row[k] = v
            elif name == 'update_one':
                table.update_one(op['url'], **op['values'])
                row = model.rows.get(op['url'])
                if row:
                    row.update(op['values'])
            elif name == 'release':
                mixed = len(set(r['status'] for r in model.rows.values())) > 2
                interesting = interesting or mixed
                table.release()
                for row in model.rows.values():
                    if row['status'] == 'in_progress':
                        row['status'] = 'todo'
            elif name == 'remove_many':
                # any iterable of URL strings (the method just iterates over it)
                form = op.get('form', 'list')
                urls_arg = {'list': list, 'tuple': tuple, 'iterator': iter, 'generator': lambda x: (u for u in x),
                            'keys': lambda x: dict.fromkeys(x).keys()}[form](op['urls'])
                part.count('remove_many_given_a_' + form)
                table.remove_many(urls_arg)
                for u in op['urls']:
                    model.rows.pop(u, None)
            elif name == 'add_visits':
                table.add_visits([tuple(v) for v in op['visits']])
                for u, wid, dig in op['visits']:
                    model.visits.setdefault(u, (wid, dig))
            elif name == 'get_revisit_id':
                got = table.get_revisit_id(op['url'], op['digest'])
                v = model.visits.get(op['url'])
                want = v[0] if v and v[1] == op['digest'] else None
                if got != want:
                    part.violation('get_revisit_id-wrong/' + cls, {'step': step, 'got': got, 'want': want}, replay)
            elif name == 'queries':
                if table.count() != len(model.rows):
                    part.violation('count-wrong/' + cls, {'step': step, 'got': table.count(),
                                                          'want': len(model.rows)}, replay)
                if table.contains(op['url']) != (op['url'] in model.rows):
                    part.violation('contains-wrong/' + cls, {'step': step, 'url': op['url']}, replay)
                try:
                    rec = table.get_one(op['url'])
                    if op['url'] not in model.rows or plain(rec) != model.rows[op['url']]:
                        part.violation('get_one-wrong/' + cls, {'step': step, 'url': op['url']}, replay)
                except NotFound:
                    if op['url'] in model.rows:
                        part.violation('get_one-NotFound-for-stored-url/' + cls, {'step': step}, replay)
                if set(table.get_hostnames()) != model.hostnames:
                    part.violation('get_hostnames-wrong/' + cls,
                                   {'step': step, 'got': sorted(table.get_hostnames()),
                                    'want': sorted(model.hostnames)}, replay)
                want = sum(1 for r in model.rows.values() if r['status'] == 'todo' and r['level'] == 0)
                if table.get_root_url_todo_count() != want:
                    part.violation('root_todo_count-wrong/' + cls, {'step': step}, replay)
            elif name == 'reopen':
                if on_disk:
                    table.close()
                    impl = SQLiteURLTable(path)
                    table = URLTableHookWrapper(impl) if history['wrapped'] else impl
                    part.count('reopens')
            if not compare_all(step, op):
                break
        else:
            part.count('histories_completed')
        if interesting:
            part.nontrivial_case(common.jhash(history))
    except Exception as e:  # noqa
        # an operation of the table's interface raised something the history does not call for (the expected NotFound /
        # ValueError outcomes are handled where they may occur)
        import traceback
        part.violation('operation-raised/{}/{}/{}'.format(op['op'], type(e).__name__, cls),
                       {'step': step, 'op': op, 'error': repr(e)[:300], 'trace': ''.join(traceback.format_tb(e.__traceback__)[-3:])[-600:]}, replay)
    finally:
        try:
            table.close()
        except Exception:
            pass
        if tmp:
            shutil.rmtree(tmp, ignore_errors=True)


def worker(job):
    import compat
    compat.install()
    part = common.Part()
    if 'replay' in job:
        run_history(job['replay'], part, job['replay'])
        part.evaluations += 1
        return part.dump()
    rng = random.Random(job['seed'])
    for n in range(job['n']):
        mixed = rng.random() < 0.1
        history = {'ops': gen_history(rng, rng.choice([20, 40, 80, 200]) if job.get('long') else rng.choice([20, 30, 40, 80]), mixed),
                   'on_disk': rng.random() < 0.4, 'wrapped': rng.random() < 0.5, 'mixed_batches': mixed}
        part.evaluations += 1
        part.count('histories_mixed_column_batches' if mixed else 'histories_uniform_batches')
        run_history(history, part, history)
        if n % 29 == 0:
            part.sample({'on_disk': history['on_disk'], 'wrapped': history['wrapped'], 'ops': history['ops'][:6]})
    return part.dump()


def main():
    check = common.Check('C14')
    check.rule = ('operation histories (20-200 ops: add_many batches with internal duplicates and property combinations, '
                  'check_out by status/level, check_in, update_one, release, remove_many, visits, queries, reopen) on '
                  'memory/disk x direct/wrapped tables; after every step returns and get_all() are compared with a dict '
                  'model. distinct_nontrivial = distinct histories that re-add a non-todo URL or release with mixed statuses')
    check.assumptions = ['check_out with a level bound: the returned URL must have level <= bound and NotFound is only '
                         'allowed when no candidate has level < bound (code and doc string disagree on the boundary)',
                         'which of several candidate rows check_out returns is not prescribed']
    target = 'checks.c14_urltable:worker'
    if check.args.replay:
        with open(check.args.replay) as f:
            rp = json.load(f)
        res = par.run_jobs(target, [{'seed': 0, 'replay': rp['replay']}], 1, timeout=300)
    else:
        total = int((9600 if check.thorough else 320) * check.scale)      # (thorough: about 50 minutes on 16 idle cores)
        nj = check.jobs * (4 if check.thorough else 1)
        jobs = [{'seed': check.seed * 1000003 + i, 'n': max(1, total // nj), 'long': check.thorough} for i in range(nj)]
        res = par.run_jobs(target, jobs, check.jobs, timeout=7200 if check.thorough else 900)
    for r in res:
        if '_error' in r:
            check.note_inconclusive('worker: ' + r['_error'] + ' ' + r.get('_stderr', '')[-400:])
        else:
            check.merge(r)
    check.finish(required_counters=() if check.args.replay else (
        'full_table_comparisons', 'histories_completed', 'check_out_hits', 'check_out_notfound', 'reopens'))


if __name__ == '__main__':
    main()
